#![no_main]
//! bytes -> operation history + concurrent readers -> C10 oracle
use libfuzzer_sys::fuzz_target;
use vharness::fuzzing;

fuzz_target!(|data: &[u8]| {
    fuzzing::pstate_one(data);
});

#![no_main]
//! bytes -> miniature-scheduler table + schedule on the production TxDependency -> C16 oracle
use libfuzzer_sys::fuzz_target;
use vharness::fuzzing;

fuzz_target!(|data: &[u8]| {
    fuzzing::txdep_one(data);
});

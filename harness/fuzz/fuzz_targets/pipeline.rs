#![no_main]
//! bytes -> (seed regions + explicit schedule prefix, see fuzzing.rs) -> Scenario -> deterministic grevm run -> C01/C02/C05 oracles
use libfuzzer_sys::fuzz_target;
use vharness::fuzzing;

fuzz_target!(|data: &[u8]| {
    fuzzing::pipeline_one(data);
});

//! C12 (delegated-CREATE guard) and C13 (delegated-balance reserve): independent models and
//! oracles. Nothing here uses grevm's delegated_safety module.

use crate::compare::*;
use crate::dsched::{normalise_state, AccountDelta, Ev, Schedule};
use crate::reference::*;
use crate::runner::*;
use crate::scenario::*;
use crate::world::*;
use grevm::TxExecutionOutcome;
use revm::bytecode::opcode::{CREATE, CREATE2};
use revm::context::result::{EVMError, ExecutionResult, InvalidTransaction, ResultAndState};
use revm::context::{BlockEnv, CfgEnv, ContextTr, JournalTr, Transaction, TxEnv};
use revm::handler::instructions::EthInstructions;
use revm::inspector::Inspector;
use revm::interpreter::interpreter::EthInterpreter;
use revm::interpreter::interpreter_types::InputsTr;
use revm::interpreter::{
    instructions::contract, CallInputs, CallOutcome, CreateInputs, CreateOutcome, Host, Instruction, InstructionContext,
    InstructionExecResult, InstructionResult, InterpreterTypes,
};
use revm::primitives::{hardfork::SpecId, Address, U256};
use revm::state::{Account, EvmState};
use revm::{Context, Database, DatabaseCommit, ExecuteEvm, InspectEvm, MainBuilder, MainContext};

// ---------------------------------------------------------------------------------------------
// C12: reference EVM with an independently written override of CREATE / CREATE2
// ---------------------------------------------------------------------------------------------

/// "The code of the account owning this frame starts with 0xef0100 => the frame halts".
fn model_create<const IS_CREATE2: bool, W: InterpreterTypes, H: Host + ?Sized>(ctx: InstructionContext<'_, H, W>) -> InstructionExecResult {
    let owner = ctx.interpreter.input.target_address();
    if let Some(code) = ctx.host.load_account_code(owner) {
        let c = code.data;
        if c.len() >= 3 && c[0] == 0xef && c[1] == 0x01 && c[2] == 0x00 {
            return Err(InstructionResult::NotActivated);
        }
    }
    contract::create::<IS_CREATE2, W, H>(ctx)
}

fn model_instructions<CTX: Host>(spec: SpecId) -> EthInstructions<EthInterpreter, CTX> {
    let mut t = EthInstructions::new_mainnet_with_spec(spec);
    t.insert_instruction(CREATE, Instruction::new(model_create::<false, _, _>), 0);
    t.insert_instruction(CREATE2, Instruction::new(model_create::<true, _, _>), 0);
    t
}

pub struct CreateGuardEngine {
    pub enabled: bool,
}

impl RefEngine for CreateGuardEngine {
    fn transact(&mut self, state: &mut RefState<'_>, cfg: &CfgEnv, block: &BlockEnv, _txid: usize, tx: &TxEnv) -> Result<ResultAndState, EVMError<DbErr>> {
        let spec = cfg.spec;
        let mut evm = Context::mainnet().with_db(state).with_cfg(cfg.clone()).with_block(block.clone()).build_mainnet();
        if self.enabled && spec.is_enabled_in(SpecId::PRAGUE) {
            evm.instruction = model_instructions(spec);
        }
        evm.transact(tx.clone()).map_err(flatten_err)
    }
}

// ---------------------------------------------------------------------------------------------
// C13: surviving value transfers out of delegated accounts, observed by an inspector
// ---------------------------------------------------------------------------------------------

#[derive(Clone, Debug)]
pub struct Debit {
    pub from: Address,
    pub balance_before: U256,
    pub value: U256,
    /// 0 call value, 1 create endowment, 2 self-destruct
    pub kind: u8,
}

#[derive(Default)]
pub struct TransferInspector {
    /// stack of frames; each holds the debits recorded inside it (and its successful children)
    frames: Vec<Vec<Debit>>,
    pub surviving: Vec<Debit>,
    depth: usize,
    /// address owning each open frame (None for create frames, whose address is not known here)
    owners: Vec<Option<Address>>,
}

fn is_delegated<CTX: ContextTr>(ctx: &mut CTX, a: Address) -> (bool, U256) {
    match ctx.journal_mut().load_account_with_code(a) {
        Ok(acc) => {
            let d = acc.data.info.code.as_ref().map_or(false, |c| c.is_eip7702());
            (d, acc.data.info.balance)
        }
        Err(_) => (false, U256::ZERO),
    }
}

impl<CTX: ContextTr> Inspector<CTX> for TransferInspector {
    fn call(&mut self, ctx: &mut CTX, inputs: &mut CallInputs) -> Option<CallOutcome> {
        let mut recs = Vec::new();
        if std::env::var("VERIF_TRACE").is_ok() {
            eprintln!("   call depth={} caller={} target={} value={:?} scheme={:?}", self.depth, inputs.caller, inputs.target_address, inputs.value, inputs.scheme);
        }
        // the top-level transaction value is excluded by the rule
        if self.depth > 0 && inputs.transfers_value() && inputs.caller != inputs.target_address {
            let v = inputs.value.get();
            if !v.is_zero() {
                let (d, bal) = is_delegated(ctx, inputs.caller);
                if d {
                    recs.push(Debit { from: inputs.caller, balance_before: bal, value: v, kind: 0 });
                }
            }
        }
        self.frames.push(recs);
        self.owners.push(Some(inputs.target_address));
        self.depth += 1;
        None
    }

    fn call_end(&mut self, _ctx: &mut CTX, _inputs: &CallInputs, outcome: &mut CallOutcome) {
        self.depth -= 1;
        self.owners.pop();
        let recs = self.frames.pop().unwrap_or_default();
        if outcome.result.result.is_ok() {
            match self.frames.last_mut() {
                Some(parent) => parent.extend(recs),
                None => self.surviving.extend(recs),
            }
        }
    }

    fn create(&mut self, ctx: &mut CTX, inputs: &mut CreateInputs) -> Option<CreateOutcome> {
        let mut recs = Vec::new();
        if self.depth > 0 && !inputs.value().is_zero() {
            let (d, bal) = is_delegated(ctx, inputs.caller());
            if d {
                recs.push(Debit { from: inputs.caller(), balance_before: bal, value: inputs.value(), kind: 1 });
            }
        }
        self.frames.push(recs);
        self.owners.push(None);
        self.depth += 1;
        None
    }

    fn create_end(&mut self, _ctx: &mut CTX, _inputs: &CreateInputs, outcome: &mut CreateOutcome) {
        self.depth -= 1;
        self.owners.pop();
        let recs = self.frames.pop().unwrap_or_default();
        if outcome.result.result.is_ok() {
            match self.frames.last_mut() {
                Some(parent) => parent.extend(recs),
                None => self.surviving.extend(recs),
            }
        }
    }

    fn selfdestruct(&mut self, contract: Address, target: Address, value: U256) {
        if std::env::var("VERIF_TRACE").is_ok() {
            eprintln!("   selfdestruct contract={contract} target={target} value={value}");
        }
        // revm's inspector glue derives these arguments from the LAST journal entry; for a
        // SELFDESTRUCT that is a no-op (Cancun: beneficiary == self, account not created in this
        // transaction) that entry is an unrelated earlier transfer. Only accept a report about the
        // account that owns the executing frame.
        if let Some(Some(owner)) = self.owners.last() {
            if *owner != contract {
                return;
            }
        }
        // the executing account's whole balance leaves it; delegation is decided afterwards
        if contract != target && !value.is_zero() {
            if let Some(cur) = self.frames.last_mut() {
                cur.push(Debit { from: contract, balance_before: value, value, kind: 2 });
            }
        }
    }
}

fn max_cost(tx: &TxEnv) -> U256 {
    tx.max_balance_spending().unwrap_or(U256::MAX)
}

pub fn required_after(txs: &[TxEnv], i: usize, a: Address) -> U256 {
    let mut s = U256::ZERO;
    for t in txs.iter().skip(i + 1) {
        if t.caller == a {
            s = s.saturating_add(max_cost(t));
        }
    }
    s
}

#[derive(Clone, Debug, Default)]
pub struct C13Stats {
    pub delegated_debit_txs: u64,
    pub with_later_own_tx: u64,
    pub violated: u64,
    pub held: u64,
    pub boundary_exact: u64,
    pub funding_invariant_accounts: u64,
    pub forced_reverts_with_auth_refund: u64,
    pub forced_reverts_of_create_txs: u64,
    pub debits_call_value: u64,
    pub debits_create_endowment: u64,
    pub debits_selfdestruct: u64,
}

/// Walk the block in order on the policy-on prefix state and check the three layers of C13
/// against grevm's per-transaction commits (from a forced-sequential run with the reserve on).
pub fn check_reserve(sc: &Scenario, m: &Materialised, txs: &[TxEnv], seq: &GrevmOutput, stats: &mut C13Stats) -> Result<(), String> {
    let mut db = m.db.clone();
    db.yields = false;
    let mut state = new_ref_state(&db);
    // per-transaction grevm results from the event log
    let mut per_tx: Vec<Option<(ExecutionResult, Vec<AccountDelta>)>> = vec![None; txs.len()];
    for l in &seq.log {
        if let Ev::SeqCommit { txid, result, delta } = &l.ev {
            per_tx[*txid] = Some((result.clone(), delta.clone()));
        }
    }
    if seq.result.is_err() {
        return Ok(()); // fatal errors are C04's business
    }
    let benef = m.block.beneficiary;
    for (i, tx) in txs.iter().enumerate() {
        let outcome = seq.outcomes.get(i).ok_or_else(|| format!("no outcome for tx {i}"))?;
        // policy-off execution of this transaction from the policy-on prefix state
        let mut insp = TransferInspector::default();
        let r_off = {
            let mut evm = Context::mainnet()
                .with_db(&mut state)
                .with_cfg(m.cfg.clone())
                .with_block(m.block.clone())
                .build_mainnet_with_inspector(&mut insp);
            evm.inspect_tx(tx.clone()).map_err(flatten_err)
        };
        match (outcome, r_off) {
            (TxExecutionOutcome::Skipped(e), Err(EVMError::Transaction(e2))) => {
                if *e != e2 {
                    return Err(format!("tx {i}: skipped with {e:?} but in-order validation on the policy-on prefix gives {e2:?}"));
                }
            }
            (TxExecutionOutcome::Skipped(e), other) => {
                return Err(format!("tx {i}: grevm skipped ({e:?}) but policy-off execution from the same state gives {:?}", other.map(|r| r.result)));
            }
            (TxExecutionOutcome::Executed(_), Err(e)) => {
                return Err(format!("tx {i}: grevm executed but policy-off execution fails: {e:?}"));
            }
            (TxExecutionOutcome::Executed(res_on), Ok(off)) => {
                let (ev_res, delta_on) = per_tx[i].clone().ok_or_else(|| format!("tx {i}: no commit event"))?;
                if !results_equal(&ev_res, res_on) {
                    return Err(format!("tx {i}: outcome differs from the committed result"));
                }
                let delta_off = normalise_state(&off.state);
                // --- layer 2: independent decision
                let mut violation = false;
                let mut any_debit = false;
                let mut first: Vec<(Address, U256)> = Vec::new();
                for d in &insp.surviving {
                    // selfdestruct records are filtered for delegation here (final code)
                    let delegated = off.state.get(&d.from).and_then(|a| a.info.code.as_ref()).map_or(false, |c| c.is_eip7702());
                    if !delegated {
                        continue;
                    }
                    match d.kind {
                        0 => stats.debits_call_value += 1,
                        1 => stats.debits_create_endowment += 1,
                        _ => stats.debits_selfdestruct += 1,
                    }
                    if !first.iter().any(|(a, _)| *a == d.from) {
                        first.push((d.from, d.balance_before));
                    }
                }
                for (a, before) in &first {
                    any_debit = true;
                    let req = required_after(txs, i, *a);
                    if req.is_zero() {
                        continue;
                    }
                    stats.with_later_own_tx += 1;
                    // "final balance" = after execution and unused-gas reimbursement, before the
                    // block-reward credit of this very transaction (it matters only when the
                    // delegated account is also the fee recipient)
                    let mut fin = off.state.get(a).map(|x| x.info.balance).unwrap_or(U256::ZERO);
                    if *a == benef {
                        let basefee = m.block.basefee as u128;
                        let price = tx.effective_gas_price(basefee).saturating_sub(if m.cfg.spec.is_enabled_in(SpecId::LONDON) { basefee } else { 0 });
                        let reward = U256::from(price) * U256::from(off.result.tx_gas_used());
                        fin = fin.saturating_sub(reward);
                    }
                    let need = (*before).min(req);
                    if fin < need {
                        violation = true;
                    }
                    if fin == need {
                        stats.boundary_exact += 1;
                    }
                }
                if any_debit {
                    stats.delegated_debit_txs += 1;
                }
                let same = results_equal(&off.result, res_on) && compare_delta(&delta_off, &delta_on).is_ok();
                if std::env::var("VERIF_TRACE").is_ok() {
                    eprintln!("tx {i}: surviving={:?} first={first:?} violation={violation} same={same}", insp.surviving);
                    for (a, _) in &first {
                        eprintln!("   {a}: required_after={} final={:?}", required_after(txs, i, *a), off.state.get(a).map(|x| x.info.balance));
                    }
                }
                if same {
                    if violation {
                        return Err(format!("tx {i}: the reserve rule is violated (model) but grevm executed the transaction as if the policy were off"));
                    }
                    if any_debit {
                        stats.held += 1;
                    }
                    state.commit(off.state);
                } else {
                    // --- layer 1: validity predicate for the forced revert
                    if !violation {
                        return Err(format!(
                            "tx {i}: policy-on result differs from policy-off execution but the reserve rule is not violated (model): on={res_on:?} off={:?}",
                            off.result
                        ));
                    }
                    stats.violated += 1;
                    if tx.kind.is_create() {
                        stats.forced_reverts_of_create_txs += 1;
                    }
                    match res_on {
                        ExecutionResult::Revert { output, .. } if output.is_empty() => {}
                        other => return Err(format!("tx {i}: reserve violation must be a top-level Revert with empty output, got {other:?}")),
                    }
                    let sender = tx.caller;
                    let authorities: Vec<Address> = tx.authorization_list.iter().filter_map(|a| match a {
                        revm::context::either::Either::Right(r) => r.authority(),
                        _ => None,
                    }).collect();
                    for d in &delta_on {
                        let pre = state.basic(d.address).ok().flatten();
                        let (pb, pn) = pre.as_ref().map(|p| (p.balance, p.nonce)).unwrap_or((U256::ZERO, 0));
                        let pre_code = pre.as_ref().map(|p| p.code_hash).unwrap_or(revm::primitives::KECCAK_EMPTY);
                        if !d.storage.is_empty() {
                            return Err(format!("tx {i}: forced revert left a storage change on {}", d.address));
                        }
                        if d.deleted {
                            // a touched empty account (e.g. an absent fee recipient touched by a zero
                            // reward) stays absent; an existing non-empty account must not vanish
                            if pre.as_ref().map_or(false, |p| !p.is_empty()) {
                                return Err(format!("tx {i}: forced revert deleted {}", d.address));
                            }
                            continue;
                        }
                        // an address may play several roles at once (sender, authority, fee recipient)
                        let is_sender = d.address == sender;
                        let is_benef = d.address == benef;
                        let n_auth = authorities.iter().filter(|a| **a == d.address).count() as u64;
                        let max_fee = U256::from(tx.gas_limit) * U256::from(tx.gas_price);
                        let lo_nonce = pn.saturating_add(is_sender as u64);
                        let hi_nonce = pn.saturating_add(is_sender as u64).saturating_add(n_auth);
                        if d.nonce < lo_nonce || d.nonce > hi_nonce {
                            return Err(format!("tx {i}: forced revert: nonce of {} went {pn} -> {} (allowed {lo_nonce}..={hi_nonce})", d.address, d.nonce));
                        }
                        let lo_bal = if is_sender { pb.saturating_sub(max_fee) } else { pb };
                        let hi_bal = if is_benef { pb.saturating_add(max_fee) } else { pb };
                        if d.balance < lo_bal || d.balance > hi_bal {
                            return Err(format!("tx {i}: forced revert: balance of {} went {pb} -> {} which is neither a fee payment nor a fee credit", d.address, d.balance));
                        }
                        if d.code_hash != pre_code && n_auth == 0 {
                            return Err(format!("tx {i}: forced revert changed the code of {} which is not an authority of this transaction", d.address));
                        }
                    }
                    // "charged": the sender pays exactly the gas the result reports at the effective
                    // price (the transaction's value and every execution transfer are discarded), and
                    // the fee recipient is credited for exactly that gas
                    {
                        let basefee = m.block.basefee as u128;
                        let eff = tx.effective_gas_price(basefee);
                        let tip = eff.saturating_sub(basefee);
                        let used = U256::from(res_on.tx_gas_used());
                        let fee = used * U256::from(eff);
                        let reward = used * U256::from(tip);
                        let post = |a: Address, pre: U256| delta_on.iter().find(|d| d.address == a).map_or(pre, |d| if d.deleted { U256::ZERO } else { d.balance });
                        let pre_sender = state.basic(sender).ok().flatten().map_or(U256::ZERO, |p| p.balance);
                        let mut want_sender = pre_sender.saturating_sub(fee);
                        if sender == benef {
                            want_sender = want_sender.saturating_add(reward);
                        }
                        let got_sender = post(sender, pre_sender);
                        if got_sender != want_sender {
                            return Err(format!("tx {i}: forced revert: the sender's balance went {pre_sender} -> {got_sender}, but the result reports {used} gas at price {eff}: expected {want_sender}"));
                        }
                        if benef != sender && !reward.is_zero() {
                            let pre_b = state.basic(benef).ok().flatten().map_or(U256::ZERO, |p| p.balance);
                            if let Some(want_b) = pre_b.checked_add(reward) {
                                let got_b = post(benef, pre_b);
                                if got_b != want_b {
                                    return Err(format!("tx {i}: forced revert: the fee recipient's balance went {pre_b} -> {got_b}, expected a credit of {reward} ({used} gas at tip {tip})"));
                                }
                            }
                        }
                    }
                    // "keeps ... authorisation effects": the code of every authority is what the
                    // policy-off execution leaves (only authorisation processing can change an EOA's code)
                    for a in &authorities {
                        let pre_code = state.basic(*a).ok().flatten().map_or(revm::primitives::KECCAK_EMPTY, |p| p.code_hash);
                        let on_code = delta_on.iter().find(|d| d.address == *a && !d.deleted).map_or(pre_code, |d| d.code_hash);
                        let off_code = off.state.get(a).filter(|x| x.is_touched()).map_or(pre_code, |x| x.info.code_hash);
                        if on_code != off_code {
                            return Err(format!("tx {i}: forced revert dropped an authorisation effect: code hash of authority {a} is {on_code} but the policy-off execution leaves {off_code} (before the transaction: {pre_code})"));
                        }
                    }
                    // "keeps ... the authorisation refund": every authorisation that took effect (the
                    // committed nonce bump beyond the sender's own) on an account that existed before
                    // earns PER_EMPTY_ACCOUNT_COST - PER_AUTH_BASE_COST = 12500 of refund in stock revm,
                    // capped at a fifth of the gas spent (EIP-3529); the forced revert discards only
                    // execution-state refunds, so its refund cannot be smaller than that
                    let mut refundable_auths = 0u64;
                    for d in &delta_on {
                        if d.deleted {
                            continue;
                        }
                        let pre = state.basic(d.address).ok().flatten();
                        if let Some(p) = pre {
                            if !p.is_empty() && authorities.contains(&d.address) {
                                refundable_auths += d.nonce.saturating_sub(p.nonce.saturating_add((d.address == sender) as u64));
                            }
                        }
                    }
                    if refundable_auths > 0 {
                        stats.forced_reverts_with_auth_refund += 1;
                        let g = res_on.gas();
                        let least = (12_500 * refundable_auths).min(g.total_gas_spent() / 5);
                        if g.inner_refunded() < least {
                            return Err(format!("tx {i}: forced revert lost the authorisation refund: {refundable_auths} authorisation(s) of existing accounts took effect, gas {g:?}, refund must be at least {least}"));
                        }
                    }
                    // advance the policy-on prefix with the (validated) committed delta
                    let mut st = EvmState::default();
                    for d in &delta_on {
                        let mut info = state.basic(d.address).ok().flatten().unwrap_or_default();
                        info.balance = d.balance;
                        info.nonce = d.nonce;
                        if info.code_hash != d.code_hash {
                            // authorisation effects are identical in the policy-off run
                            if let Some(a) = off.state.get(&d.address) {
                                info.code = a.info.code.clone();
                            }
                            info.code_hash = d.code_hash;
                        }
                        let mut acc = Account::from(info);
                        acc.mark_touch();
                        st.insert(d.address, acc);
                    }
                    state.commit(st);
                }
            }
        }
    }
    // --- layer 3: funding invariant
    for (idx, e) in sc.world.eoas.iter().enumerate() {
        let a = sc.world.addr(&AddrRef::Eoa(idx as u8));
        let total = txs.iter().filter(|t| t.caller == a).fold(U256::ZERO, |s, t| s.saturating_add(max_cost(t)));
        if total.is_zero() || e.balance.to_u256() < total {
            continue;
        }
        stats.funding_invariant_accounts += 1;
        for (i, t) in txs.iter().enumerate() {
            if t.caller == a {
                if let Some(TxExecutionOutcome::Skipped(InvalidTransaction::LackOfFundForMaxFee { .. })) = seq.outcomes.get(i) {
                    return Err(format!("account {a} could pay for all its block transactions at block start but tx {i} was skipped for lack of funds"));
                }
            }
        }
    }
    Ok(())
}

pub fn seq_cfg(g: &GrevmCfg) -> GrevmCfg {
    GrevmCfg { force_sequential: true, concurrency: 1, entry: Entry::Execute, ..g.clone() }
}

pub fn same_run(a: &GrevmOutput, b: &GrevmOutput) -> Result<(), String> {
    if a.result != b.result {
        return Err(format!("Ok/Err differs: sequential {:?} vs parallel {:?}", a.result, b.result));
    }
    compare_outcomes(&a.outcomes, &b.outcomes)?;
    compare_bundles(&a.bundle, &b.bundle)
}

pub fn default_schedule() -> Schedule {
    Schedule::default()
}

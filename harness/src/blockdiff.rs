//! Engine E1 "blockdiff": run a scenario through grevm (deterministic schedule or free-running)
//! and through the stock-revm in-order reference, and apply the oracle clauses selected by the
//! owning property.

use crate::compare::*;
use crate::dsched::{Ev, Verdict};
use crate::reference::*;
use crate::runner::*;
use crate::scenario::*;
use crate::world::*;
use grevm::TxExecutionOutcome;
use std::collections::BTreeMap;

#[derive(Clone, Debug, Default)]
pub struct Oracle {
    /// outcomes + bundle (+ read-back) equal the reference; reference-fatal cases are excluded
    pub result_equal: bool,
    /// when the reference fails at k: same error, exact prefix (C04)
    pub error_prefix: bool,
    /// every commit event equals the i-th in-order step, in order, once (C02)
    pub commit_trace: bool,
    /// controller verdicts (C05/C17)
    pub termination: bool,
    pub readback: bool,
    /// exclude (count) scenarios whose reference run meets a fatal error
    pub exclude_ref_fatal: bool,
}

#[derive(Clone, Debug)]
pub struct Failure {
    pub clause: String,
    pub detail: String,
}

#[derive(Clone, Debug, Default)]
pub struct CaseReport {
    pub failure: Option<Failure>,
    pub inconclusive: Option<String>,
    pub excluded: Option<String>,
    pub classes: Vec<String>,
    pub class: RunClass,
    pub parallel: bool,
    pub ref_skipped: usize,
    pub ref_executed: usize,
    pub ref_error: bool,
    pub steps: u64,
}

pub struct Artifacts {
    pub rf: RefOutput,
    pub out: GrevmOutput,
}

fn fail(clause: &str, detail: String) -> Option<Failure> {
    Some(Failure { clause: clause.to_string(), detail })
}

/// Check the commit-event trace against the reference (C02 clauses i-iii).
pub fn check_commit_trace(rf: &RefOutput, out: &GrevmOutput, n_txs: usize) -> Result<(), String> {
    let mut next = 0usize;
    let mut finality = 0usize;
    let mut committed = 0usize;
    let mut installed: Option<(usize, usize)> = None;
    // (iv) a validation that predates a rewind covering its transaction never reaches finality:
    // largest timestamp of a completed rewind to an index <= i
    let mut rewinds: Vec<(usize, usize)> = Vec::new();
    // mechanism-free form of the same clause, on log order only: between the start of the validation
    // that is accepted for transaction i and the moment i becomes final, nobody may have requested
    // a validation rewind to an index <= i
    let n_txs_bound = n_txs;
    let mut val_start: std::collections::HashMap<(usize, usize), usize> = Default::default(); // (txid, inc) -> log position of the latest start
    let mut accepted: std::collections::HashMap<usize, usize> = Default::default(); // txid -> position of the start of its latest successful validation
    let mut requests: Vec<(usize, usize, usize)> = Vec::new(); // (position, index, by_tx)
    for (pos, l) in out.log.iter().enumerate() {
        match &l.ev {
            Ev::ValidationStart { txid, incarnation, .. } => {
                val_start.insert((*txid, *incarnation), pos);
            }
            Ev::ValidationEnd { txid, incarnation, conflict, .. } => {
                if *conflict {
                    accepted.remove(txid);
                } else if let Some(p) = val_start.get(&(*txid, *incarnation)) {
                    accepted.insert(*txid, *p);
                }
            }
            Ev::AttemptStart { txid, .. } => {
                accepted.remove(txid);
            }
            Ev::RewindRequest { index, by_tx } => {
                if *index < n_txs_bound {
                    requests.push((pos, *index, *by_tx));
                }
            }
            Ev::Finality { txid, incarnation, .. } => {
                if let Some(p) = accepted.get(txid) {
                    if let Some((q, j, by)) = requests.iter().find(|(q, j, _)| q > p && j <= txid) {
                        let _ = q;
                        return Err(format!(
                            "stale validation finalised: transaction {txid} (incarnation {incarnation}) became final on a validation that started before transaction {by} requested a validation rewind to index {j}, which covers it"
                        ));
                    }
                }
            }
            _ => {}
        }
    }
    for l in &out.log {
        match &l.ev {
            Ev::Rewind { index, ts, .. } => rewinds.push((*index, *ts)),
            Ev::Finality { txid, unconfirmed_ts, incarnation, .. } => {
                if let Some((j, ts)) = rewinds.iter().filter(|(j, ts)| j <= txid && ts > unconfirmed_ts).max_by_key(|(_, ts)| *ts) {
                    return Err(format!(
                        "stale validation finalised: transaction {txid} (incarnation {incarnation}) became final with a validation taken at logical time {unconfirmed_ts}, although a validation rewind to index {j} was published later (time {ts}) and covers it"
                    ));
                }
            }
            _ => {}
        }
        match &l.ev {
            Ev::Commit { txid, result, delta, .. } => {
                if *txid != next {
                    return Err(format!("commit event for tx {txid} but the next uncommitted index is {next}"));
                }
                if *txid >= finality {
                    return Err(format!("tx {txid} committed before finality reached it (finality={finality})"));
                }
                match rf.outcomes.get(*txid) {
                    Some(TxExecutionOutcome::Executed(r)) => {
                        if !results_equal(r, result) {
                            return Err(format!("commit {txid}: result differs from in-order step: reference {r:?} vs committed {result:?}"));
                        }
                        compare_delta(&rf.deltas[*txid], delta).map_err(|e| format!("commit {txid}: {e}"))?;
                    }
                    Some(TxExecutionOutcome::Skipped(e)) => {
                        return Err(format!("commit {txid}: committed by the parallel path but in-order validation skips it ({e:?})"));
                    }
                    None => {
                        if rf.error.is_none() {
                            return Err(format!("commit {txid}: beyond the reference"));
                        }
                        return Err(format!("commit {txid}: the in-order run fails before this transaction ({:?})", rf.error));
                    }
                }
                next += 1;
            }
            Ev::SeqCommit { txid, result, delta } => {
                if *txid != next {
                    return Err(format!("sequential commit for tx {txid} but the next uncommitted index is {next}"));
                }
                match rf.outcomes.get(*txid) {
                    Some(TxExecutionOutcome::Executed(r)) => {
                        if !results_equal(r, result) {
                            return Err(format!("seq commit {txid}: result differs: reference {r:?} vs {result:?}"));
                        }
                        compare_delta(&rf.deltas[*txid], delta).map_err(|e| format!("seq commit {txid}: {e}"))?;
                    }
                    other => return Err(format!("seq commit {txid}: reference has {other:?}")),
                }
                next += 1;
            }
            Ev::SeqSkipped { txid } => {
                if *txid != next {
                    return Err(format!("sequential skip for tx {txid} but the next uncommitted index is {next}"));
                }
                match rf.outcomes.get(*txid) {
                    Some(TxExecutionOutcome::Skipped(_)) => {}
                    other => return Err(format!("seq skip {txid}: reference has {other:?}")),
                }
                next += 1;
            }
            Ev::PublishFinality { index } => {
                if *index < finality {
                    return Err(format!("finality cursor moved backwards {finality} -> {index}"));
                }
                finality = *index;
            }
            Ev::PublishCommit { index } => {
                if *index < committed {
                    return Err(format!("committed cursor moved backwards {committed} -> {index}"));
                }
                if *index > finality {
                    return Err(format!("committed cursor {index} ahead of finality {finality}"));
                }
                if *index != next {
                    return Err(format!("committed cursor published {index} but {next} transactions were applied"));
                }
                committed = *index;
            }
            Ev::Installed { outcomes, committed_idx } => {
                installed = Some((*outcomes, *committed_idx));
                if outcomes != committed_idx || *committed_idx != committed {
                    return Err(format!("installed {outcomes} outcomes for committed boundary {committed_idx} (published {committed})"));
                }
            }
            _ => {}
        }
    }
    let _ = installed;
    if rf.error.is_none() && out.result.is_ok() && next != n_txs {
        return Err(format!("run succeeded but only {next} of {n_txs} transactions were committed"));
    }
    Ok(())
}

/// A run that exhausted its (fixed-work) step budget is a livelock - not merely inconclusive - when
/// one transaction went through at least this many incarnations: with n <= 24 transactions every
/// re-execution of transaction k is caused by a new incarnation of a predecessor, an erroring attempt
/// retried at its commit boundary, or a duplicate claim, so counts of this size do not arise from any
/// finite block; on the unchanged tree no quick campaign has produced a run with a count of 8 or more.
pub const LIVELOCK_INCARNATIONS: usize = 1000;

pub fn livelock(detail: &str, log: &[crate::dsched::LoggedEv]) -> Option<String> {
    if !detail.starts_with("step budget exhausted") {
        return None;
    }
    let mut max: std::collections::BTreeMap<usize, usize> = Default::default();
    for l in log {
        if let Ev::AttemptStart { txid, incarnation, .. } = &l.ev {
            let e = max.entry(*txid).or_insert(0);
            *e = (*e).max(*incarnation);
        }
    }
    let (tx, inc) = max.iter().max_by_key(|(_, i)| **i).map(|(t, i)| (*t, *i))?;
    (inc >= LIVELOCK_INCARNATIONS).then(|| format!("the step budget was exhausted while transaction {tx} went through {inc} incarnations (per-transaction maxima: {max:?}): the block is re-executed forever; {detail}"))
}

pub fn evaluate(sc: &Scenario, oracle: &Oracle, precompiles: Precompiles, engine: Option<&mut dyn RefEngine>) -> (CaseReport, Artifacts) {
    let m = materialise(sc);
    let txs = materialise_txs(sc, &m);
    let parallel = takes_parallel_path(&sc.grevm, txs.len());
    let want_rb = oracle.readback && sc.faults.is_empty() && sc.raw_faults.is_empty();
    // transient plan: only "the n-th read of a storage key fails once" faults. C04: such a fault is
    // either absorbed (the full fault-free result) or reported with an exact prefix; here the absorbed
    // case is compared with the fault-free reference and the reported case is left to C04.
    let transient = !sc.faults.is_empty() && sc.raw_faults.is_empty() && sc.faults.iter().all(|f| matches!(f.mode, FaultMode::FailNth(_)) && matches!(f.key, crate::scenario::DbKey::Storage(..)));
    let ref_db = {
        let mut d = m.db.clone();
        d.yields = false;
        // injected panics are not part of in-order semantics: the reference runs without them
        d.faults.retain(|(_, mode)| !matches!(mode, FaultMode::PanicNth(_)));
        if transient {
            d.faults.clear();
        }
        d
    };
    let rf = match engine {
        Some(e) => run_reference_with(&m, &ref_db, &txs, parallel, want_rb, e),
        None => run_reference(&m, &ref_db, &txs, parallel, want_rb),
    };
    let mut rep = CaseReport { parallel, ..Default::default() };
    rep.ref_error = rf.error.is_some();
    rep.ref_skipped = rf.outcomes.iter().filter(|o| matches!(o, TxExecutionOutcome::Skipped(_))).count();
    rep.ref_executed = rf.outcomes.len() - rep.ref_skipped;

    let out = run_grevm(&m, m.db.clone(), &txs, &sc.grevm, sc.schedule.as_ref(), precompiles, want_rb);
    rep.class = classify(&out.log);
    rep.steps = out.stats.steps;

    // --- verdicts
    match &out.verdict {
        Verdict::Inconclusive { detail } => {
            if let Some(d) = livelock(detail, &out.log) {
                if oracle.termination || oracle.result_equal {
                    rep.failure = fail("termination/livelock", d);
                    return (rep, Artifacts { rf, out });
                }
            }
            rep.inconclusive = Some(detail.clone());
            return (rep, Artifacts { rf, out });
        }
        Verdict::Deadlock { detail } => {
            if oracle.termination || oracle.result_equal {
                rep.failure = fail("termination/deadlock", detail.clone());
                return (rep, Artifacts { rf, out });
            }
        }
        Verdict::TimerDependent { fired } => {
            if oracle.termination {
                rep.failure = fail("termination/timer-dependent-progress", format!("stall timers had to fire {fired} time(s) for the run to finish"));
                return (rep, Artifacts { rf, out });
            }
        }
        Verdict::Completed => {}
    }
    {
        // an injected panic that fired must reach the caller with its original payload
        let injected = sc.faults.iter().any(|f| matches!(f.mode, FaultMode::PanicNth(_))) || sc.raw_faults.iter().any(|f| matches!(f.mode, FaultMode::PanicNth(_)));
        if injected && out.db_fired > 0 && out.panic.as_deref() != Some(PANIC_PAYLOAD) && oracle.termination {
            rep.failure = fail("panic-payload", format!("a database panic was injected and fired, but execute() returned {:?} / panic {:?} instead of unwinding with the original payload", out.result, out.panic));
            return (rep, Artifacts { rf, out });
        }
        if injected && out.panic.is_some() {
            rep.classes.push("injected_panic_reached_caller".into());
        }
    }
    if let Some(p) = &out.panic {
        let injected = sc.faults.iter().any(|f| matches!(f.mode, FaultMode::PanicNth(_))) || sc.raw_faults.iter().any(|f| matches!(f.mode, FaultMode::PanicNth(_)));
        if !(injected && p == PANIC_PAYLOAD) {
            rep.failure = fail("panic", format!("execute() panicked: {p}"));
            return (rep, Artifacts { rf, out });
        }
    }

    if transient {
        rep.classes.push("transient_fault_plan".into());
        if out.db_fired > 0 {
            rep.classes.push("transient_fault_fired".into());
        }
        if let Err((_, e)) = &out.result {
            if e.starts_with("Database(") || e.contains("injected") {
                rep.excluded = Some("transient database fault reported as the block error (C04 decides the prefix)".into());
                return (rep, Artifacts { rf, out });
            }
        }
    }
    if rf.error.is_some() && oracle.exclude_ref_fatal {
        rep.excluded = Some("reference run meets a fatal error".into());
        return (rep, Artifacts { rf, out });
    }

    // --- result clauses
    if oracle.result_equal && rf.error.is_none() && out.panic.is_none() {
        let r = match &out.result {
            Err((k, e)) => Err(format!("execute() returned Err(txid={k}, {e}) but in-order execution completes")),
            Ok(()) => Ok(()),
        }
        .and_then(|_| compare_outcomes(&rf.outcomes, &out.outcomes))
        .and_then(|_| compare_bundles(&rf.bundle, &out.bundle));
        if let Err(e) = r {
            rep.failure = fail("result", e);
            return (rep, Artifacts { rf, out });
        }
        if want_rb {
            if let (Some(a), Some(b)) = (&rf.readback, &out.readback) {
                if let Err(e) = compare_readback(a, b) {
                    rep.failure = fail("readback", e);
                    return (rep, Artifacts { rf, out });
                }
            }
        }
    }
    if oracle.error_prefix && out.panic.is_none() {
        if let Some((k, sig)) = &rf.error {
            let r = match &out.result {
                Ok(()) => Err(format!("execute() returned Ok but in-order execution fails at {k} with {sig}")),
                Err((gk, gsig)) => {
                    if gk != k || gsig != sig {
                        Err(format!("error differs: reference Err({k}, {sig}) vs grevm Err({gk}, {gsig})"))
                    } else {
                        Ok(())
                    }
                }
            }
            .and_then(|_| compare_outcomes(&rf.outcomes, &out.outcomes))
            .and_then(|_| compare_bundles(&rf.bundle, &out.bundle));
            if let Err(e) = r {
                rep.failure = fail("error-prefix", e);
                return (rep, Artifacts { rf, out });
            }
        }
    }
    if oracle.commit_trace && out.panic.is_none() && sc.schedule.is_some() {
        if let Err(e) = check_commit_trace(&rf, &out, txs.len()) {
            rep.failure = fail("commit-trace", e);
            return (rep, Artifacts { rf, out });
        }
    }
    (rep, Artifacts { rf, out })
}

pub fn histogram_add(h: &mut BTreeMap<String, u64>, k: &str, v: u64) {
    if v > 0 {
        *h.entry(k.to_string()).or_insert(0) += v;
    }
}

pub fn class_histogram(h: &mut BTreeMap<String, u64>, r: &CaseReport) {
    let c = &r.class;
    histogram_add(h, "runs_parallel_path", r.parallel as u64);
    histogram_add(h, "runs_with_reexecution", (c.reexecutions > 0) as u64);
    histogram_add(h, "runs_with_validation_conflict", (c.validation_conflicts > 0) as u64);
    histogram_add(h, "runs_with_estimate_blocked_read", (c.estimate_blocked > 0) as u64);
    histogram_add(h, "runs_with_effective_rewind", (c.rewinds_effective > 0) as u64);
    histogram_add(h, "runs_with_new_write_rewind", (c.new_write_rewinds > 0) as u64);
    histogram_add(h, "runs_with_error_attempt_between_successful_attempts", (c.err_between_successes > 0) as u64);
    histogram_add(h, "runs_with_rewind_over_validated_tx", (c.stale_unconfirmed_rewinds > 0) as u64);
    histogram_add(h, "runs_with_finality_rejected_by_timestamp", (c.finality_rejected > 0) as u64);
    histogram_add(h, "runs_with_park_ended_by_unpark", (c.unparks > 0) as u64);
    histogram_add(h, "runs_with_dependency_edge", (c.dep_adds > 0) as u64);
    histogram_add(h, "runs_with_handoff", (c.handoffs > 0) as u64);
    histogram_add(h, "runs_with_key_tx_barrier", (c.key_txs > 0) as u64);
    histogram_add(h, "runs_with_abort", (c.aborts > 0) as u64);
    histogram_add(h, "runs_with_sequential_fallback", (c.fallbacks > 0) as u64);
    histogram_add(h, "runs_with_commit_of_incarnation_ge2", (c.commits_inc_ge2 > 0) as u64);
    histogram_add(h, "runs_with_reference_skips", (r.ref_skipped > 0) as u64);
    histogram_add(h, "runs_with_reference_fatal", r.ref_error as u64);
    histogram_add(h, "runs_with_injected_panic_reaching_caller", r.classes.iter().any(|c| c == "injected_panic_reached_caller") as u64);
    histogram_add(h, "runs_with_transient_fault_plan", r.classes.iter().any(|c| c == "transient_fault_plan") as u64);
    histogram_add(h, "runs_with_transient_fault_fired_and_absorbed", (r.classes.iter().any(|c| c == "transient_fault_fired") && r.excluded.is_none()) as u64);
    histogram_add(h, "runs_with_max_incarnation_ge_8", (c.max_incarnation >= 8) as u64);
    histogram_add(h, "runs_with_max_incarnation_ge_16", (c.max_incarnation >= 16) as u64);
    histogram_add(h, "runs_with_max_incarnation_ge_32", (c.max_incarnation >= 32) as u64);
    histogram_add(h, "runs_with_max_incarnation_ge_64", (c.max_incarnation >= 64) as u64);
    histogram_add(h, "total_attempts", c.attempts);
    histogram_add(h, "total_steps", r.steps);
}

//! C11: scripted custom precompiles. The grevm side implements the script through the
//! capability-restricted facade (`ParallelPrecompileInput::state`); the reference side implements
//! the same script semantics independently on Alloy's unrestricted `EvmInternals` and is installed
//! into a stock revm EVM.
//!
//! calldata[0] = op + 10 * account selector, calldata[1..33] = value word (optional)
//! ops: 0 balance(acct) | 1 sload(con0, k) | 2 set_balance(acct, val) | 3 sstore(con0, k, val)
//!      4 read balance twice, compare | 5 sstore(con0, k, sload(con0, k) + 1)
//!      6 set_balance(acct, balance(acct) + val) | 7 sload ignoring any error, then succeed
//!      8 sstore(con0, k, val) then read it back | 9 pure constant

use crate::reference::{flatten_err, RefEngine, RefState};
use crate::runner::Precompiles;
use crate::scenario::*;
use crate::world::DbErr;
use alloy_evm::precompiles::{DynPrecompile, PrecompileInput, PrecompilesMap};
use grevm::{DynParallelPrecompile, ParallelPrecompileError, ParallelPrecompileInput};
use revm::context::result::{EVMError, ResultAndState};
use revm::context::{BlockEnv, CfgEnv, TxEnv};
use revm::precompile::{PrecompileError, PrecompileHalt, PrecompileId, PrecompileOutput, PrecompileSpecId, Precompiles as RevmPrecompiles};
use revm::primitives::{Address, Bytes, U256};
use revm::{Context, ExecuteEvm, MainBuilder, MainContext};
use std::sync::atomic::{AtomicBool, AtomicU64, Ordering};
use std::sync::Arc;

pub const GAS: u64 = 700;

#[derive(Default)]
pub struct Observations {
    pub grevm_calls: AtomicU64,
    pub ref_calls: AtomicU64,
    pub inconsistent_double_read: AtomicBool,
    pub state_touching_calls: AtomicU64,
    /// grevm side only: panic at this invocation number (0 = never); set once before the run
    pub panic_at: AtomicU64,
    pub panicked: AtomicBool,
}

#[derive(Clone)]
pub struct Script {
    pub accts: [Address; 4],
    pub con: Address,
}

impl Script {
    pub fn new(w: &World) -> Self {
        Script {
            accts: [w.addr(&AddrRef::Eoa(0)), w.addr(&AddrRef::Con(0)), w.beneficiary_addr(), w.addr(&AddrRef::Absent(1))],
            con: w.addr(&AddrRef::Con(0)),
        }
    }
    fn decode(&self, data: &[u8]) -> (u8, Address, U256, U256) {
        let b = data.first().copied().unwrap_or(9);
        // 250: the state-dependent invariant check (op 10); every other byte keeps its meaning
        let op = if b == 250 { 10 } else { b % 10 };
        let acct = self.accts[((b / 10) % 4) as usize];
        let val = if data.len() >= 33 { U256::from_be_slice(&data[1..33]) } else { U256::from(b as u64 + 1) };
        let slot = U256::from(((b / 10) % 3) as u64);
        (op, acct, val, slot)
    }
}

fn word(v: U256) -> Bytes {
    Bytes::from(v.to_be_bytes::<32>().to_vec())
}

// ---------------------------------------------------------------------------------------------
// grevm side: through the facade only
// ---------------------------------------------------------------------------------------------

pub fn grevm_precompile(script: Script, obs: Arc<Observations>) -> DynParallelPrecompile {
    DynParallelPrecompile::new(PrecompileId::custom("vharness-script"), move |input: &mut ParallelPrecompileInput<'_>| {
        let nth = obs.grevm_calls.fetch_add(1, Ordering::Relaxed) + 1;
        let panic_at = obs.panic_at.load(Ordering::Relaxed);
        if panic_at != 0 && nth == panic_at {
            obs.panicked.store(true, Ordering::Relaxed);
            std::panic::panic_any(crate::world::PANIC_PAYLOAD.to_string());
        }
        if input.gas() < GAS {
            return Err(ParallelPrecompileError::Halt(PrecompileHalt::OutOfGas));
        }
        let reservoir = input.reservoir();
        let (op, acct, val, slot) = script.decode(input.data());
        let con = script.con;
        if op != 9 {
            obs.state_touching_calls.fetch_add(1, Ordering::Relaxed);
        }
        let out = match op {
            0 => input.state().balance(acct)?.data,
            1 => input.state().sload(con, slot)?.data,
            2 => {
                input.state().set_balance(acct, val)?;
                U256::from(2)
            }
            3 => {
                input.state().sstore(con, slot, val)?;
                U256::from(3)
            }
            4 => {
                let a = input.state().balance(acct)?.data;
                let b = input.state().balance(acct)?.data;
                if a != b {
                    obs.inconsistent_double_read.store(true, Ordering::Relaxed);
                }
                a
            }
            5 => {
                let v = input.state().sload(con, slot)?.data;
                input.state().sstore(con, slot, v.wrapping_add(U256::from(1)))?;
                v
            }
            6 => {
                let b = input.state().balance(acct)?.data;
                input.state().set_balance(acct, b.saturating_add(val))?;
                b
            }
            7 => {
                // deliberately ignores a facade error: the adapter must still enforce it
                let _ = input.state().sload(con, slot);
                let _ = input.state().balance(acct);
                U256::from(7)
            }
            8 => {
                input.state().sstore(con, slot, val)?;
                input.state().sload(con, slot)?.data
            }
            10 => {
                // retry-safe and state-dependent: fatal unless slots 0 and 1 of the holder agree. In
                // order the writers keep them equal; a speculative attempt may see a torn pair.
                let a = input.state().sload(con, U256::from(0))?.data;
                let b = input.state().sload(con, U256::from(1))?.data;
                if a != b {
                    return Err(ParallelPrecompileError::Fatal(PrecompileError::Fatal("holder invariant violated".to_string())));
                }
                a
            }
            _ => U256::from(9),
        };
        Ok(PrecompileOutput::new(GAS, word(out), reservoir))
    })
}

pub fn grevm_precompiles(w: &World, obs: Arc<Observations>) -> Precompiles {
    let p = grevm_precompile(Script::new(w), obs);
    Some(Arc::new(vec![(w.addr(&AddrRef::Custom(0)), p)]))
}

// ---------------------------------------------------------------------------------------------
// reference side: independently written on EvmInternals
// ---------------------------------------------------------------------------------------------

fn fatal<E: std::fmt::Display>(e: E) -> PrecompileError {
    PrecompileError::Fatal(e.to_string())
}

pub fn reference_precompile(script: Script, obs: Arc<Observations>) -> DynPrecompile {
    DynPrecompile::new_stateful(PrecompileId::custom("vharness-script"), move |mut input: PrecompileInput<'_>| {
        obs.ref_calls.fetch_add(1, Ordering::Relaxed);
        let reservoir = input.reservoir;
        if input.gas < GAS {
            return Ok(PrecompileOutput::halt(PrecompileHalt::OutOfGas, reservoir));
        }
        let (op, acct, val, slot) = script.decode(input.data);
        let con = script.con;
        let is_static = input.is_static;
        let static_halt = || Ok(PrecompileOutput::halt(PrecompileHalt::other_static("state change during static call"), reservoir));
        let it = &mut input.internals;
        let out = match op {
            0 => it.load_account(acct).map_err(fatal)?.data.info.balance,
            1 => it.sload(con, slot).map_err(fatal)?.data,
            2 => {
                if is_static {
                    return static_halt();
                }
                it.load_account_mut(acct).map_err(fatal)?.data.set_balance(val);
                U256::from(2)
            }
            3 => {
                if is_static {
                    return static_halt();
                }
                it.sstore(con, slot, val).map_err(fatal)?;
                U256::from(3)
            }
            4 => {
                let a = it.load_account(acct).map_err(fatal)?.data.info.balance;
                let _b = it.load_account(acct).map_err(fatal)?.data.info.balance;
                a
            }
            5 => {
                let v = it.sload(con, slot).map_err(fatal)?.data;
                if is_static {
                    return static_halt();
                }
                it.sstore(con, slot, v.wrapping_add(U256::from(1))).map_err(fatal)?;
                v
            }
            6 => {
                let b = it.load_account(acct).map_err(fatal)?.data.info.balance;
                if is_static {
                    return static_halt();
                }
                it.load_account_mut(acct).map_err(fatal)?.data.set_balance(b.saturating_add(val));
                b
            }
            7 => {
                // a failing state access is fatal whether or not the script looks at it
                it.sload(con, slot).map_err(fatal)?;
                it.load_account(acct).map_err(fatal)?;
                U256::from(7)
            }
            8 => {
                if is_static {
                    return static_halt();
                }
                it.sstore(con, slot, val).map_err(fatal)?;
                it.sload(con, slot).map_err(fatal)?.data
            }
            10 => {
                let a = it.sload(con, U256::from(0)).map_err(fatal)?.data;
                let b = it.sload(con, U256::from(1)).map_err(fatal)?.data;
                if a != b {
                    return Err(PrecompileError::Fatal("holder invariant violated".to_string()));
                }
                a
            }
            _ => U256::from(9),
        };
        Ok(PrecompileOutput::new(GAS, word(out), reservoir))
    })
}

pub struct PrecompileEngine {
    pub address: Address,
    pub precompile: DynPrecompile,
}

impl PrecompileEngine {
    pub fn new(w: &World, obs: Arc<Observations>) -> Self {
        PrecompileEngine { address: w.addr(&AddrRef::Custom(0)), precompile: reference_precompile(Script::new(w), obs) }
    }
}

impl RefEngine for PrecompileEngine {
    fn transact(
        &mut self,
        state: &mut RefState<'_>,
        cfg: &CfgEnv,
        block: &BlockEnv,
        _txid: usize,
        tx: &TxEnv,
    ) -> Result<ResultAndState, EVMError<DbErr>> {
        let spec = cfg.spec;
        let mut evm = Context::mainnet()
            .with_db(state)
            .with_cfg(cfg.clone())
            .with_block(block.clone())
            .build_mainnet()
            .with_precompiles(PrecompilesMap::from_static(RevmPrecompiles::new(PrecompileSpecId::from_spec_id(spec))));
        let p = self.precompile.clone();
        evm.precompiles.apply_precompile(&self.address, move |_| Some(p));
        evm.transact(tx.clone()).map_err(flatten_err)
    }
}

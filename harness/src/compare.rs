//! Normalised comparison of outcomes, bundles, deltas and read-backs.

use crate::dsched::AccountDelta;
use crate::reference::AccountRead;
use grevm::TxExecutionOutcome;
use revm::database::{AccountRevert, BundleAccount, BundleState};
use revm::context::result::{ExecutionResult, HaltReason};
use revm::primitives::{Address, KECCAK_EMPTY};
use std::collections::BTreeMap;

/// Representation noise the properties do not constrain: stock revm's precompile provider attaches
/// a diagnostic string to a failing standard precompile, alloy-evm's `PrecompilesMap` (which grevm
/// uses so that custom precompiles can be registered) reports the same halt without the string.
pub fn normalise_result(r: &ExecutionResult) -> ExecutionResult {
    match r {
        ExecutionResult::Halt { reason: HaltReason::PrecompileErrorWithContext(_), gas, logs } => {
            ExecutionResult::Halt { reason: HaltReason::PrecompileError, gas: gas.clone(), logs: logs.clone() }
        }
        other => other.clone(),
    }
}

pub fn results_equal(a: &ExecutionResult, b: &ExecutionResult) -> bool {
    a == b || normalise_result(a) == normalise_result(b)
}

pub fn outcome_equal(a: &TxExecutionOutcome, b: &TxExecutionOutcome) -> bool {
    match (a, b) {
        (TxExecutionOutcome::Executed(x), TxExecutionOutcome::Executed(y)) => results_equal(x, y),
        _ => a == b,
    }
}

pub fn compare_outcomes(reference: &[TxExecutionOutcome], actual: &[TxExecutionOutcome]) -> Result<(), String> {
    if reference.len() != actual.len() {
        return Err(format!("outcome count: reference {} vs grevm {}", reference.len(), actual.len()));
    }
    for (i, (r, a)) in reference.iter().zip(actual).enumerate() {
        if !outcome_equal(r, a) {
            return Err(format!("outcome {i} differs: reference {r:?} vs grevm {a:?}"));
        }
    }
    Ok(())
}

pub fn compare_bundles(reference: &BundleState, actual: &BundleState) -> Result<(), String> {
    let l: BTreeMap<&Address, &BundleAccount> = reference.state.iter().collect();
    let r: BTreeMap<&Address, &BundleAccount> = actual.state.iter().collect();
    if l.keys().collect::<Vec<_>>() != r.keys().collect::<Vec<_>>() {
        return Err(format!("bundle address sets differ: reference {:?} vs grevm {:?}", l.keys(), r.keys()));
    }
    for (addr, la) in &l {
        let ra = r[addr];
        if la.info != ra.info {
            return Err(format!("bundle info of {addr}: reference {:?} vs grevm {:?}", la.info, ra.info));
        }
        if la.original_info != ra.original_info {
            return Err(format!("bundle original_info of {addr}: reference {:?} vs grevm {:?}", la.original_info, ra.original_info));
        }
        if la.status != ra.status {
            return Err(format!("bundle status of {addr}: reference {:?} vs grevm {:?}", la.status, ra.status));
        }
        let ls: BTreeMap<_, _> = la.storage.iter().collect();
        let rs: BTreeMap<_, _> = ra.storage.iter().collect();
        if ls != rs {
            return Err(format!("bundle storage of {addr}: reference {ls:?} vs grevm {rs:?}"));
        }
    }
    // The KECCAK_EMPTY -> empty-bytecode entry carries no information (it appears when a journal
    // account was materialised with `code: Some(empty)` rather than `None`); ignored.
    let lc: BTreeMap<_, _> = reference.contracts.iter().filter(|(h, _)| **h != KECCAK_EMPTY).collect();
    let rc: BTreeMap<_, _> = actual.contracts.iter().filter(|(h, _)| **h != KECCAK_EMPTY).collect();
    if lc.keys().collect::<Vec<_>>() != rc.keys().collect::<Vec<_>>() {
        return Err(format!("bundle contracts differ: reference {:?} vs grevm {:?}", lc.keys(), rc.keys()));
    }
    for (h, c) in &lc {
        if rc[h].original_bytes() != c.original_bytes() {
            return Err(format!("bundle contract {h} bytes differ"));
        }
    }
    if reference.reverts.len() != actual.reverts.len() {
        return Err(format!("reverts block count: reference {} vs grevm {}", reference.reverts.len(), actual.reverts.len()));
    }
    for (bi, (lb, rb)) in reference.reverts.iter().zip(actual.reverts.iter()).enumerate() {
        let lm: BTreeMap<&Address, &AccountRevert> = lb.iter().map(|(a, r)| (a, r)).collect();
        let rm: BTreeMap<&Address, &AccountRevert> = rb.iter().map(|(a, r)| (a, r)).collect();
        if lb.len() != rb.len() || lm.len() != lb.len() || rm.len() != rb.len() {
            return Err(format!("reverts[{bi}] length/duplicates: reference {} vs grevm {}", lb.len(), rb.len()));
        }
        if lm != rm {
            for (a, lr) in &lm {
                match rm.get(a) {
                    None => return Err(format!("reverts[{bi}] missing {a} in grevm")),
                    Some(rr) if rr != lr => {
                        return Err(format!("reverts[{bi}] of {a}: reference {lr:?} vs grevm {rr:?}"))
                    }
                    _ => {}
                }
            }
            return Err(format!("reverts[{bi}] differ"));
        }
    }
    if reference.state_size != actual.state_size {
        return Err(format!("state_size: reference {} vs grevm {}", reference.state_size, actual.state_size));
    }
    if reference.reverts_size != actual.reverts_size {
        return Err(format!("reverts_size: reference {} vs grevm {}", reference.reverts_size, actual.reverts_size));
    }
    Ok(())
}

pub fn compare_readback(reference: &[AccountRead], actual: &[AccountRead]) -> Result<(), String> {
    if reference.len() != actual.len() {
        return Err("read-back length".into());
    }
    for (r, a) in reference.iter().zip(actual) {
        if r.info != a.info {
            return Err(format!("read-back account {}: reference {:?} vs grevm {:?}", r.address, r.info, a.info));
        }
        for (s, (rv, av)) in r.slots.iter().zip(&a.slots).enumerate() {
            if rv != av {
                return Err(format!("read-back slot {s} of {}: reference {rv} vs grevm {av}", r.address));
            }
        }
    }
    Ok(())
}

pub fn compare_delta(reference: &[AccountDelta], actual: &[AccountDelta]) -> Result<(), String> {
    if reference != actual {
        let l: BTreeMap<_, _> = reference.iter().map(|d| (d.address, d)).collect();
        let r: BTreeMap<_, _> = actual.iter().map(|d| (d.address, d)).collect();
        for (a, ld) in &l {
            match r.get(a) {
                None => return Err(format!("delta: {a} changed in reference only: {ld:?}")),
                Some(rd) if rd != ld => return Err(format!("delta of {a}: reference {ld:?} vs grevm {rd:?}")),
                _ => {}
            }
        }
        for (a, rd) in &r {
            if !l.contains_key(a) {
                return Err(format!("delta: {a} changed in grevm only: {rd:?}"));
            }
        }
        return Err("delta differs".into());
    }
    Ok(())
}

//! `dsched`: a deterministic cooperative ("baton") scheduler over grevm's real OS threads.
//!
//! Exactly one registered thread runs at a time; at every hook the running thread asks the
//! controller who runs next, and the answer is read from a `Schedule` value. See DESIGN.md 3.2.

use grevm::verif::{Event, VerifHooks};
use revm::context::result::ExecutionResult;
use revm::primitives::{Address, B256, U256};
use revm::state::EvmState;
use serde::{Deserialize, Serialize};
use std::{
    cell::Cell,
    collections::HashMap,
    sync::{
        atomic::{AtomicBool, AtomicU64, Ordering},
        Condvar, Mutex, MutexGuard,
    },
    time::Duration,
};

pub const MAX_THREADS: usize = 48;
pub const ROLE_MAIN: u32 = 0;
pub const ROLE_HARNESS: u32 = 10; // + index, for component-harness threads
/// Point kind used by the harness database.
pub const PT_HARNESS_DB: u32 = 900;
pub const PT_HARNESS: u32 = 901;

// ------------------------------------------------------------------------------------------
// Schedule value
// ------------------------------------------------------------------------------------------

#[derive(Clone, Debug, Serialize, Deserialize, PartialEq)]
pub enum Tail {
    /// always the lowest-numbered eligible thread
    First,
    RoundRobin,
    Uniform { seed: u64 },
    /// keep running the current thread with probability `stay`/256
    Sticky { seed: u64, stay: u8 },
    /// PCT: random initial priorities, `depth` priority change points within `span` steps
    Pct { seed: u64, depth: u8, span: u32 },
    /// thread `victim` (index among registered threads, modulo) is not scheduled during
    /// [from, from+len) unless nothing else can run; uniform otherwise
    Starve { seed: u64, victim: u8, from: u32, len: u32 },
    /// every time a thread reaches a point of kind `at`, it is held with probability `prob`/256
    /// until `until`; sticky-random otherwise
    DelayAt { seed: u64, at: u32, prob: u8, until: Until, stay: u8 },
    /// adaptive: a worker that has just claimed the validation of a transaction whose last
    /// successful validation predates a rewind covering it is held (before it takes the status
    /// lock) for up to `len` steps or until the finality loop has looked at that transaction
    StaleValidation { seed: u64, len: u32, stay: u8 },
}

#[derive(Clone, Debug, Serialize, Deserialize, PartialEq)]
pub enum Until {
    Steps(u32),
    /// n-th event of the given kind (see `Ev::kind_code`) after the hold started
    Event(u32, u8),
    /// whichever comes first
    EventOrSteps(u32, u8, u32),
}

#[derive(Clone, Debug, Serialize, Deserialize, PartialEq)]
pub struct Hold {
    /// role of the thread (grevm::verif::role::*, ROLE_MAIN, ROLE_HARNESS+i)
    pub role: u32,
    /// which thread of that role, in registration order (255 = any thread of the role)
    pub nth_thread: u8,
    /// point kind (grevm::verif::pt::*)
    pub at: u32,
    /// only occurrences whose hook argument (usually the transaction index) equals this
    #[serde(default)]
    pub arg: Option<u16>,
    /// n-th matching occurrence on that thread (0-based)
    pub nth: u8,
    pub until: Until,
}

#[derive(Clone, Debug, Serialize, Deserialize, PartialEq)]
pub struct Schedule {
    /// exact choices (index into the eligible set, clamped), consumed before `prefix`; used by the
    /// bounded-exhaustive enumerations
    #[serde(default)]
    pub exact: Vec<u8>,
    pub prefix: Vec<u8>,
    pub tail: Tail,
    pub holds: Vec<Hold>,
}

impl Default for Schedule {
    fn default() -> Self {
        Self { exact: vec![], prefix: vec![], tail: Tail::First, holds: vec![] }
    }
}

// ------------------------------------------------------------------------------------------
// Owned event log
// ------------------------------------------------------------------------------------------

/// Normalised per-address change of one committed journal state.
#[derive(Clone, Debug, PartialEq, Eq, PartialOrd, Ord)]
pub struct AccountDelta {
    pub address: Address,
    /// account absent after this transaction (self-destructed or EIP-161 cleared)
    pub deleted: bool,
    pub created: bool,
    pub balance: U256,
    pub nonce: u64,
    pub code_hash: B256,
    /// changed slots -> present value
    pub storage: Vec<(U256, U256)>,
}

pub fn normalise_state(state: &EvmState) -> Vec<AccountDelta> {
    let mut out = Vec::new();
    for (address, account) in state.iter() {
        if !account.is_touched() {
            continue;
        }
        let deleted =
            account.is_selfdestructed() || (account.is_empty() && !account.is_created());
        let mut storage: Vec<(U256, U256)> = account
            .storage
            .iter()
            .filter(|(_, s)| s.is_changed())
            .map(|(k, s)| (*k, s.present_value))
            .collect();
        storage.sort();
        if deleted {
            out.push(AccountDelta {
                address: *address,
                deleted: true,
                created: false,
                balance: U256::ZERO,
                nonce: 0,
                code_hash: B256::ZERO,
                storage: vec![],
            });
        } else {
            out.push(AccountDelta {
                address: *address,
                deleted: false,
                created: account.is_created(),
                balance: account.info.balance,
                nonce: account.info.nonce,
                code_hash: account.info.code_hash,
                storage,
            });
        }
    }
    out.sort();
    out
}

#[derive(Clone, Debug)]
pub enum Ev {
    AttemptStart { txid: usize, incarnation: usize, committed_idx: usize },
    AttemptEnd { txid: usize, incarnation: usize, kind: u32, new_write_locations: bool },
    ValidationEnd { txid: usize, incarnation: usize, ts: usize, conflict: bool },
    RewindRequest { index: usize, by_tx: usize },
    ValidationStart { txid: usize, incarnation: usize, ts: usize },
    Rewind { index: usize, ts: usize, previous: usize },
    Finality { txid: usize, incarnation: usize, unconfirmed_ts: usize, lower_ts: usize },
    FinalityRejected { txid: usize, unconfirmed_ts: usize, lower_ts: usize },
    Abort { kind: u32, txid: usize },
    Commit { txid: usize, result: ExecutionResult, delta: Vec<AccountDelta>, reward: Option<U256> },
    CommitFallback { txid: usize },
    SeqCommit { txid: usize, result: ExecutionResult, delta: Vec<AccountDelta> },
    SeqSkipped { txid: usize },
    SeqError { txid: usize },
    DepAdd { txid: usize, dep: Option<usize> },
    DepRemove { txid: usize, handoff: Option<usize> },
    KeyTx { txid: usize },
    DepBlocked { txid: usize, dep: usize },
    DepOnboard { txid: usize },
    DepClaim { txid: usize, handoff: bool },
    PublishCommit { index: usize },
    PublishFinality { index: usize },
    Installed { outcomes: usize, committed_idx: usize },
    /// controller-generated
    Parked { thread: usize },
    Unparked { thread: usize, by_token: bool },
    TimerFired,
    Diag(String),
    /// harness-generated (free form)
    Note { code: u32, a: usize, b: usize },
}

/// Kind code that counts only events of `kind` about transaction `txid` (see `Until`).
pub fn per_tx_kind(kind: u32, txid: usize) -> u32 {
    (kind << 16) | (txid as u32 + 1)
}

impl Ev {
    pub fn txid(&self) -> Option<usize> {
        match self {
            Ev::AttemptStart { txid, .. } | Ev::AttemptEnd { txid, .. } | Ev::ValidationEnd { txid, .. } | Ev::Finality { txid, .. } | Ev::Commit { txid, .. } => Some(*txid),
            _ => None,
        }
    }

    pub fn kind_code(&self) -> u32 {
        match self {
            Ev::AttemptStart { .. } => 1,
            Ev::AttemptEnd { .. } => 2,
            Ev::ValidationEnd { .. } => 3,
            Ev::Rewind { .. } => 4,
            Ev::Finality { .. } => 5,
            Ev::FinalityRejected { .. } => 6,
            Ev::Abort { .. } => 7,
            Ev::Commit { .. } => 8,
            Ev::CommitFallback { .. } => 9,
            Ev::SeqCommit { .. } => 10,
            Ev::SeqSkipped { .. } => 11,
            Ev::SeqError { .. } => 12,
            Ev::DepAdd { .. } => 13,
            Ev::DepRemove { .. } => 14,
            Ev::KeyTx { .. } => 15,
            Ev::PublishCommit { .. } => 16,
            Ev::PublishFinality { .. } => 17,
            Ev::Installed { .. } => 18,
            Ev::Parked { .. } => 19,
            Ev::Unparked { .. } => 20,
            Ev::TimerFired => 21,
            Ev::Note { .. } => 22,
            Ev::Diag(_) => 23,
            Ev::DepOnboard { .. } => 24,
            Ev::DepClaim { .. } => 25,
            Ev::DepBlocked { .. } => 26,
            Ev::RewindRequest { .. } => 27,
            Ev::ValidationStart { .. } => 28,
        }
    }
}

fn own_event(e: Event<'_>) -> Ev {
    match e {
        Event::AttemptStart { txid, incarnation, committed_idx } => {
            Ev::AttemptStart { txid, incarnation, committed_idx }
        }
        Event::AttemptEnd { txid, incarnation, kind, new_write_locations } => {
            Ev::AttemptEnd { txid, incarnation, kind, new_write_locations }
        }
        Event::ValidationEnd { txid, incarnation, ts, conflict } => {
            Ev::ValidationEnd { txid, incarnation, ts, conflict }
        }
        Event::Rewind { index, ts, previous } => Ev::Rewind { index, ts, previous },
        Event::RewindRequest { index, by_tx } => Ev::RewindRequest { index, by_tx },
        Event::ValidationStart { txid, incarnation, ts } => Ev::ValidationStart { txid, incarnation, ts },
        Event::Finality { txid, incarnation, unconfirmed_ts, lower_ts } => {
            Ev::Finality { txid, incarnation, unconfirmed_ts, lower_ts }
        }
        Event::FinalityRejected { txid, unconfirmed_ts, lower_ts } => {
            Ev::FinalityRejected { txid, unconfirmed_ts, lower_ts }
        }
        Event::Abort { kind, txid } => Ev::Abort { kind, txid },
        Event::Commit { txid, result, state, reward } => {
            Ev::Commit { txid, result: result.clone(), delta: normalise_state(state), reward }
        }
        Event::CommitFallback { txid } => Ev::CommitFallback { txid },
        Event::SeqCommit { txid, result, state } => {
            Ev::SeqCommit { txid, result: result.clone(), delta: normalise_state(state) }
        }
        Event::SeqSkipped { txid } => Ev::SeqSkipped { txid },
        Event::SeqError { txid } => Ev::SeqError { txid },
        Event::DepAdd { txid, dep } => Ev::DepAdd { txid, dep },
        Event::DepRemove { txid, handoff } => Ev::DepRemove { txid, handoff },
        Event::KeyTx { txid } => Ev::KeyTx { txid },
        Event::DepOnboard { txid } => Ev::DepOnboard { txid },
        Event::DepBlocked { txid, dep } => Ev::DepBlocked { txid, dep },
        Event::DepClaim { txid, handoff } => Ev::DepClaim { txid, handoff },
        Event::PublishCommit { index } => Ev::PublishCommit { index },
        Event::PublishFinality { index } => Ev::PublishFinality { index },
        Event::Installed { outcomes, committed_idx } => Ev::Installed { outcomes, committed_idx },
    }
}

#[derive(Clone, Debug)]
pub struct LoggedEv {
    pub step: u64,
    pub thread: Option<usize>,
    pub ev: Ev,
}

// ------------------------------------------------------------------------------------------
// Controller state
// ------------------------------------------------------------------------------------------

#[derive(Clone, Copy, PartialEq, Debug)]
enum St {
    Run,
    /// waiting for a lock; not eligible until the epoch changes
    Blocked(u64),
    /// completed a read-only spin iteration at this epoch
    Idle(u64),
    Parked(usize),
    External,
    Finished,
}

struct Th {
    st: St,
    /// deterministic identity: role * 256 + index among threads of that role
    key: u32,
    role: u32,
    nth_of_role: u8,
    spin_epoch: Option<u64>,
    /// hold expiry condition, if held
    held: Option<(Until, u64 /*start step*/, u64 /*events of kind at start*/)>,
    /// per hold: matching hits so far
    hold_hits: Vec<u32>,
    priority: u64,
    /// passed a non-spin hook since its last spin/park: it may have written shared state after
    /// the last epoch bump (e.g. released a lock), so its next spin/park must bump the epoch
    dirty: bool,
}

#[derive(Clone, Debug, Default, Serialize, Deserialize, PartialEq)]
pub struct RunStats {
    pub steps: u64,
    pub switches: u64,
    pub decisions: u64,
    pub threads: usize,
    pub parks: u64,
    pub unparks_woke: u64,
    pub unparks_token: u64,
    pub lock_waits: u64,
    pub idle_marks: u64,
    pub holds_fired: u64,
    pub trace_hash: u64,
    /// width of the eligible set at every decision with more than one eligible thread
    #[serde(default)]
    pub decision_widths: Vec<u8>,
}

#[derive(Clone, Debug, PartialEq, Serialize, Deserialize)]
pub enum Verdict {
    Completed,
    /// progress was only possible after the parked coordinators were released "by the timer"
    TimerDependent { fired: u32 },
    Deadlock { detail: String },
    /// harness trouble: step budget, watchdog — never a violation
    Inconclusive { detail: String },
}

struct Ctl {
    active: bool,
    released: bool,
    generation: u64,
    threads: Vec<Th>,
    current: Option<usize>,
    epoch: u64,
    steps: u64,
    step_budget: u64,
    expected_threads: usize,
    tokens: HashMap<usize, bool>,
    schedule: Schedule,
    prefix_pos: usize,
    exact_pos: usize,
    rng: u64,
    rr_last: usize,
    pct_change_points: Vec<u64>,
    event_counts: HashMap<u32, u64>,
    log: Vec<LoggedEv>,
    stats: RunStats,
    timer_fired: u32,
    deadlock: Option<String>,
    inconclusive: Option<String>,
    record_events: bool,
    /// transactions whose latest validation succeeded / of those, the ones a later rewind covered
    validated_ok: std::collections::HashSet<usize>,
    stale_validated: std::collections::HashSet<usize>,
    on_stuck: Option<Box<dyn Fn() + Send>>,
    trace: Option<Vec<(u16, u32)>>,
}

impl Ctl {
    fn new() -> Self {
        Ctl {
            active: false,
            released: false,
            generation: 0,
            threads: Vec::new(),
            current: None,
            epoch: 0,
            steps: 0,
            step_budget: 400_000,
            expected_threads: 0,
            tokens: HashMap::new(),
            schedule: Schedule::default(),
            prefix_pos: 0,
            exact_pos: 0,
            rng: 1,
            rr_last: 0,
            pct_change_points: Vec::new(),
            event_counts: HashMap::new(),
            log: Vec::new(),
            stats: RunStats::default(),
            timer_fired: 0,
            deadlock: None,
            inconclusive: None,
            record_events: true,
            validated_ok: Default::default(),
            stale_validated: Default::default(),
            on_stuck: None,
            trace: None,
        }
    }

    fn next_u(&mut self) -> u64 {
        // splitmix64
        self.rng = self.rng.wrapping_add(0x9E3779B97F4A7C15);
        let mut z = self.rng;
        z = (z ^ (z >> 30)).wrapping_mul(0xBF58476D1CE4E5B9);
        z = (z ^ (z >> 27)).wrapping_mul(0x94D049BB133111EB);
        z ^ (z >> 31)
    }

    fn hold_expired(&self, t: &Th) -> bool {
        match &t.held {
            None => true,
            Some((Until::Steps(n), start, _)) => self.steps >= start + *n as u64,
            Some((Until::Event(kind, nth), _, at_start)) => {
                self.event_counts.get(kind).copied().unwrap_or(0) >= at_start + 1 + *nth as u64
            }
            Some((Until::EventOrSteps(kind, nth, n), start, at_start)) => {
                self.steps >= start + *n as u64
                    || self.event_counts.get(kind).copied().unwrap_or(0) >= at_start + 1 + *nth as u64
            }
        }
    }

    fn eligible_raw(&self, i: usize) -> bool {
        match self.threads[i].st {
            St::Run => true,
            St::Blocked(e) | St::Idle(e) => e != self.epoch,
            St::Parked(slot) => self.tokens.get(&slot).copied().unwrap_or(false),
            St::External | St::Finished => false,
        }
    }

    fn eligible_set(&mut self) -> Vec<usize> {
        // expire holds
        for i in 0..self.threads.len() {
            if self.threads[i].held.is_some() && self.hold_expired(&self.threads[i]) {
                self.threads[i].held = None;
            }
        }
        let mut el: Vec<usize> = (0..self.threads.len())
            .filter(|&i| self.eligible_raw(i) && self.threads[i].held.is_none())
            .collect();
        if el.is_empty() {
            // holds must never manufacture a deadlock
            let mut any = false;
            for i in 0..self.threads.len() {
                if self.threads[i].held.is_some() && self.eligible_raw(i) {
                    self.threads[i].held = None;
                    any = true;
                }
            }
            if any {
                el = (0..self.threads.len()).filter(|&i| self.eligible_raw(i)).collect();
            }
        }
        // thread ids depend on OS registration order; keys do not
        el.sort_by_key(|&i| self.threads[i].key);
        el
    }

    fn all_done(&self) -> bool {
        self.threads.iter().all(|t| matches!(t.st, St::Finished | St::External))
    }

    fn describe(&self) -> String {
        let mut s = String::new();
        for (i, t) in self.threads.iter().enumerate() {
            s += &format!("[{} role={} {:?}{}] ", i, t.role, t.st, if t.held.is_some() { " held" } else { "" });
        }
        s += &format!("epoch={} steps={}", self.epoch, self.steps);
        s
    }

    /// Choose the next thread to run. `me` is the calling thread (its state already updated).
    fn pick(&mut self, me: Option<usize>) {
        loop {
            let el = self.eligible_set();
            if el.is_empty() {
                if self.all_done() {
                    self.current = None;
                    return;
                }
                // Stuck. First let the stall timers fire once per stuck state.
                let parked: Vec<usize> = (0..self.threads.len())
                    .filter(|&i| matches!(self.threads[i].st, St::Parked(_)))
                    .collect();
                if !parked.is_empty() && self.timer_fired < 64 {
                    self.timer_fired += 1;
                    let d = self.describe();
                    self.log_ev(None, Ev::Diag(d));
                    self.log_ev(None, Ev::TimerFired);
                    for p in parked {
                        // park_timeout returns without a token
                        self.threads[p].st = St::Run;
                    }
                    self.epoch += 1;
                    continue;
                }
                // Permanent: nobody can change shared state any more.
                let d = self.describe();
                self.deadlock = Some(d);
                self.release_all();
                return;
            }
            self.stats.decisions += 1;
            if el.len() > 1 {
                self.stats.decision_widths.push(el.len().min(255) as u8);
            }
            let choice = if el.len() == 1 {
                el[0]
            } else if self.exact_pos < self.schedule.exact.len() {
                let c = self.schedule.exact[self.exact_pos] as usize;
                self.exact_pos += 1;
                el[c.min(el.len() - 1)]
            } else if self.prefix_pos < self.schedule.prefix.len() {
                let c = self.schedule.prefix[self.prefix_pos] as usize;
                self.prefix_pos += 1;
                el[(c * el.len()) >> 8]
            } else {
                self.tail_pick(&el, me)
            };
            self.current = Some(choice);
            return;
        }
    }

    fn tail_pick(&mut self, el: &[usize], me: Option<usize>) -> usize {
        match self.schedule.tail.clone() {
            Tail::First => el[0],
            Tail::RoundRobin => {
                let last = self.rr_last as u32;
                let c = el.iter().copied().find(|&i| self.threads[i].key > last).unwrap_or(el[0]);
                self.rr_last = self.threads[c].key as usize;
                c
            }
            Tail::Uniform { .. } => {
                let r = self.next_u();
                el[(r % el.len() as u64) as usize]
            }
            Tail::Sticky { stay, .. } => {
                if let Some(me) = me {
                    if el.contains(&me) && (self.next_u() & 0xff) < stay as u64 {
                        return me;
                    }
                }
                let r = self.next_u();
                el[(r % el.len() as u64) as usize]
            }
            Tail::Pct { .. } => {
                // change points lower the priority of the running thread
                while let Some(&cp) = self.pct_change_points.first() {
                    if self.steps >= cp {
                        self.pct_change_points.remove(0);
                        if let Some(me) = me {
                            let low = self.pct_change_points.len() as u64; // decreasing lows
                            self.threads[me].priority = low;
                        }
                    } else {
                        break;
                    }
                }
                *el.iter().max_by_key(|&&i| (self.threads[i].priority, u32::MAX - self.threads[i].key)).unwrap()
            }
            Tail::DelayAt { stay, .. } | Tail::StaleValidation { stay, .. } => {
                if let Some(me) = me {
                    if el.contains(&me) && (self.next_u() & 0xff) < stay as u64 {
                        return me;
                    }
                }
                let r = self.next_u();
                el[(r % el.len() as u64) as usize]
            }
            Tail::Starve { victim, from, len, .. } => {
                let mut all: Vec<usize> = (0..self.threads.len()).collect();
                all.sort_by_key(|&i| self.threads[i].key);
                let v = all[victim as usize % all.len().max(1)];
                let in_window = self.steps >= from as u64 && self.steps < from as u64 + len as u64;
                let cands: Vec<usize> = if in_window && el.len() > 1 {
                    el.iter().copied().filter(|&i| i != v).collect()
                } else {
                    el.to_vec()
                };
                let r = self.next_u();
                cands[(r % cands.len() as u64) as usize]
            }
        }
    }

    fn release_all(&mut self) {
        self.released = true;
        self.current = None;
    }

    fn log_ev(&mut self, thread: Option<usize>, ev: Ev) {
        *self.event_counts.entry(ev.kind_code()).or_insert(0) += 1;
        // a second counter per (kind, transaction): `until` conditions may wait for an event about one
        // particular transaction with the kind code `per_tx_kind(kind, txid)`
        if let Some(t) = ev.txid() {
            *self.event_counts.entry(per_tx_kind(ev.kind_code(), t)).or_insert(0) += 1;
        }
        match &ev {
            Ev::ValidationEnd { txid, conflict, .. } => {
                self.stale_validated.remove(txid);
                if *conflict {
                    self.validated_ok.remove(txid);
                } else {
                    self.validated_ok.insert(*txid);
                }
            }
            Ev::AttemptStart { txid, .. } | Ev::Finality { txid, .. } => {
                self.validated_ok.remove(txid);
                self.stale_validated.remove(txid);
            }
            Ev::Rewind { index, previous, .. } => {
                for k in *index..*previous {
                    if self.validated_ok.contains(&k) {
                        self.stale_validated.insert(k);
                    }
                }
            }
            Ev::RewindRequest { index, .. } => {
                // every successfully validated, not yet final transaction at or above the index is
                // covered by this request, whatever the cursor position is
                let covered: Vec<usize> = self.validated_ok.iter().copied().filter(|k| k >= index).collect();
                for k in covered {
                    self.stale_validated.insert(k);
                }
            }
            _ => {}
        }
        if self.record_events {
            let step = self.steps;
            self.log.push(LoggedEv { step, thread, ev });
        }
    }
}

struct Gate {
    m: Mutex<u64>, // generation-tagged open counter
    cv: Condvar,
}

pub struct Controller {
    m: Mutex<Ctl>,
    reg_cv: Condvar,
    gates: Vec<Gate>,
    /// fast-path flags readable without the mutex
    active: AtomicBool,
    generation: AtomicU64,
}

thread_local! {
    static ME: Cell<Option<(u64, usize)>> = const { Cell::new(None) };
}

pub struct RunOutput {
    pub verdict: Verdict,
    pub stats: RunStats,
    pub log: Vec<LoggedEv>,
    pub event_counts: HashMap<u32, u64>,
    pub trace: Option<Vec<(u16, u32)>>,
}

impl Controller {
    pub fn new() -> Self {
        Controller {
            m: Mutex::new(Ctl::new()),
            reg_cv: Condvar::new(),
            gates: (0..MAX_THREADS).map(|_| Gate { m: Mutex::new(0), cv: Condvar::new() }).collect(),
            active: AtomicBool::new(false),
            generation: AtomicU64::new(0),
        }
    }

    fn lock(&self) -> MutexGuard<'_, Ctl> {
        self.m.lock().unwrap_or_else(|e| e.into_inner())
    }

    fn me(&self) -> Option<usize> {
        let g = self.generation.load(Ordering::Acquire);
        ME.with(|m| m.get()).and_then(|(gen, id)| (gen == g).then_some(id))
    }

    /// Begin a deterministic run; the calling thread becomes thread 0 (role main) and holds the
    /// baton. `on_stuck` is invoked (from whichever thread detects it, after all gates were
    /// opened) when the run is diagnosed as permanently stuck or the harness is in trouble.
    pub fn begin_run(&self, schedule: &Schedule, record_trace: bool, on_stuck: Option<Box<dyn Fn() + Send>>) {
        let mut g = self.lock();
        let generation = g.generation + 1;
        *g = Ctl::new();
        g.generation = generation;
        g.active = true;
        g.schedule = schedule.clone();
        g.on_stuck = on_stuck;
        if record_trace {
            g.trace = Some(Vec::new());
        }
        let seed = match &schedule.tail {
            Tail::Uniform { seed } | Tail::Sticky { seed, .. } | Tail::Pct { seed, .. } | Tail::Starve { seed, .. } | Tail::DelayAt { seed, .. } | Tail::StaleValidation { seed, .. } => *seed,
            _ => 0,
        };
        g.rng = seed ^ 0xD1B54A32D192ED03;
        if let Tail::Pct { depth, span, .. } = &schedule.tail {
            let mut cps: Vec<u64> = (0..*depth).map(|_| g.next_u() % (*span as u64).max(1)).collect();
            cps.sort();
            g.pct_change_points = cps;
        }
        g.threads.push(Th { st: St::Run, key: 0, role: ROLE_MAIN, nth_of_role: 0, spin_epoch: None, held: None, hold_hits: Vec::new(), priority: u64::MAX / 2, dirty: false });
        g.current = Some(0);
        self.generation.store(generation, Ordering::Release);
        self.active.store(true, Ordering::Release);
        ME.with(|m| m.set(Some((generation, 0))));
        for gate in &self.gates {
            *gate.m.lock().unwrap() = 0;
        }
    }

    /// Begin a free-running run: no baton, hooks only record events.
    pub fn begin_free_run(&self) {
        let mut g = self.lock();
        let generation = g.generation + 1;
        *g = Ctl::new();
        g.generation = generation;
        g.active = false;
        self.generation.store(generation, Ordering::Release);
        self.active.store(false, Ordering::Release);
        ME.with(|m| m.set(None));
    }

    pub fn end_run(&self) -> RunOutput {
        let mut g = self.lock();
        g.active = false;
        self.active.store(false, Ordering::Release);
        ME.with(|m| m.set(None));
        let verdict = if let Some(d) = g.inconclusive.take() {
            Verdict::Inconclusive { detail: d }
        } else if let Some(d) = g.deadlock.take() {
            Verdict::Deadlock { detail: d }
        } else if g.timer_fired > 0 {
            Verdict::TimerDependent { fired: g.timer_fired }
        } else {
            Verdict::Completed
        };
        let mut stats = g.stats.clone();
        stats.steps = g.steps;
        stats.threads = g.threads.len();
        RunOutput {
            verdict,
            stats,
            log: std::mem::take(&mut g.log),
            event_counts: std::mem::take(&mut g.event_counts),
            trace: g.trace.take(),
        }
    }

    pub fn note(&self, code: u32, a: usize, b: usize) {
        let me = self.me();
        let mut g = self.lock();
        g.log_ev(me, Ev::Note { code, a, b });
    }

    pub fn is_active(&self) -> bool {
        self.active.load(Ordering::Acquire)
    }

    fn open_gate(&self, id: usize, generation: u64) {
        let gate = &self.gates[id];
        let mut o = gate.m.lock().unwrap();
        *o = generation;
        gate.cv.notify_all();
    }

    /// Wait until this thread holds the baton (or the run was released).
    fn wait_turn(&self, me: usize, generation: u64) {
        let gate = &self.gates[me];
        let mut stuck_for = 0u32;
        let mut last_steps = u64::MAX;
        loop {
            {
                let mut o = gate.m.lock().unwrap();
                loop {
                    if *o == generation {
                        *o = 0;
                        break;
                    }
                    let (guard, timeout) = gate.cv.wait_timeout(o, Duration::from_millis(500)).unwrap();
                    o = guard;
                    if timeout.timed_out() {
                        break;
                    }
                }
            }
            let mut g = self.lock();
            if g.generation != generation || !g.active || g.released {
                return;
            }
            if g.current == Some(me) {
                return;
            }
            // watchdog: nobody made a step for a long time
            if g.steps == last_steps {
                stuck_for += 1;
                if stuck_for >= 40 {
                    g.inconclusive = Some(format!("watchdog: no hook for 20s; {}", g.describe()));
                    self.release(g);
                    return;
                }
            } else {
                stuck_for = 0;
                last_steps = g.steps;
            }
        }
    }

    /// Open every gate; afterwards hooks are no-ops. Calls on_stuck.
    fn release(&self, mut g: MutexGuard<'_, Ctl>) {
        g.release_all();
        let generation = g.generation;
        let n = g.threads.len();
        let cb = g.on_stuck.take();
        drop(g);
        for i in 0..n {
            self.open_gate(i, generation);
        }
        self.reg_cv.notify_all();
        if let Some(cb) = cb {
            cb();
        }
    }

    /// Core: set my state, pick the next thread, hand over the baton, wait for my turn.
    fn switch(&self, mut g: MutexGuard<'_, Ctl>, me: usize, st: St, kind: u32, arg: usize) {
        let generation = g.generation;
        g.threads[me].st = st;
        g.steps += 1;
        let key = g.threads[me].key;
        if let Some(t) = g.trace.as_mut() {
            t.push((key as u16, kind));
        }
        g.stats.trace_hash = (g.stats.trace_hash ^ ((key as u64) << 32 | kind as u64)).wrapping_mul(0x100000001b3);
        if g.steps > g.step_budget {
            g.inconclusive = Some(format!("step budget exhausted; {}", g.describe()));
            self.release(g);
            return;
        }
        if let Tail::DelayAt { at, prob, until, .. } = g.schedule.tail.clone() {
            if at == kind && g.threads[me].held.is_none() && (g.next_u() & 0xff) < prob as u64 {
                let at_start = match &until {
                    Until::Event(k, _) | Until::EventOrSteps(k, _, _) => g.event_counts.get(k).copied().unwrap_or(0),
                    _ => 0,
                };
                let steps = g.steps;
                g.threads[me].held = Some((until, steps, at_start));
                g.stats.holds_fired += 1;
            }
        }
        if let Tail::StaleValidation { len, .. } = g.schedule.tail {
            if kind == grevm::verif::pt::LOCK_TX_STATE_NEXT_VALIDATION && g.stale_validated.contains(&arg) && g.threads[me].held.is_none() {
                let at_start = g.event_counts.get(&6).copied().unwrap_or(0);
                let steps = g.steps;
                g.threads[me].held = Some((Until::EventOrSteps(6, 0, len), steps, at_start));
                g.stats.holds_fired += 1;
            }
        }
        // holds
        if !g.schedule.holds.is_empty() {
            let role = g.threads[me].role;
            let nth_thread = g.threads[me].nth_of_role;
            let holds = g.schedule.holds.clone();
            if g.threads[me].hold_hits.len() < holds.len() {
                g.threads[me].hold_hits.resize(holds.len(), 0);
            }
            for (hi, h) in holds.iter().enumerate() {
                if !(h.role == role && (h.nth_thread == 255 || h.nth_thread == nth_thread) && h.at == kind && h.arg.map_or(true, |a| a as usize == arg)) {
                    continue;
                }
                let cnt = g.threads[me].hold_hits[hi];
                g.threads[me].hold_hits[hi] += 1;
                if h.nth as u32 == cnt {
                    let at_start = match &h.until {
                        Until::Event(k, _) | Until::EventOrSteps(k, _, _) => g.event_counts.get(k).copied().unwrap_or(0),
                        _ => 0,
                    };
                    let steps = g.steps;
                    g.threads[me].held = Some((h.until.clone(), steps, at_start));
                    g.stats.holds_fired += 1;
                }
            }
        }
        g.pick(Some(me));
        if g.released {
            // deadlock diagnosed inside pick
            self.release(g);
            return;
        }
        let next = g.current;
        if next == Some(me) {
            if !matches!(g.threads[me].st, St::Run) {
                g.threads[me].st = St::Run;
            }
            return;
        }
        g.stats.switches += 1;
        drop(g);
        if let Some(n) = next {
            self.open_gate(n, generation);
        }
        self.wait_turn(me, generation);
        let mut g = self.lock();
        if g.generation == generation && g.active && !g.released && !matches!(g.threads[me].st, St::Run) {
            g.threads[me].st = St::Run;
        }
    }

    /// Register the calling thread as a new controlled thread and wait for the baton.
    pub fn register_thread(&self, role: u32) {
        if !self.is_active() {
            return;
        }
        let mut g = self.lock();
        if !g.active || g.released {
            return;
        }
        let generation = g.generation;
        let id = g.threads.len();
        assert!(id < MAX_THREADS, "too many controlled threads");
        let nth = g.threads.iter().filter(|t| t.role == role).count() as u8;
        let key = role * 256 + nth as u32;
        // PCT priorities: deterministic from the seed and the thread key
        let pr = {
            let mut z = (g.rng ^ 0xA0761D6478BD642F).wrapping_add((key as u64).wrapping_mul(0x9E3779B97F4A7C15));
            z = (z ^ (z >> 30)).wrapping_mul(0xBF58476D1CE4E5B9);
            z = (z ^ (z >> 27)).wrapping_mul(0x94D049BB133111EB);
            (z ^ (z >> 31)) | (1 << 40)
        };
        g.threads.push(Th { st: St::Run, key, role, nth_of_role: nth, spin_epoch: None, held: None, hold_hits: Vec::new(), priority: pr, dirty: false });
        ME.with(|m| m.set(Some((generation, id))));
        drop(g);
        self.reg_cv.notify_all();
        self.wait_turn(id, generation);
    }

    pub fn unregister_thread(&self) {
        let Some(me) = self.me() else { return };
        let mut g = self.lock();
        ME.with(|m| m.set(None));
        if !g.active || g.released {
            return;
        }
        let generation = g.generation;
        g.threads[me].st = St::Finished;
        g.epoch += 1;
        g.steps += 1;
        g.pick(None);
        if g.released {
            self.release(g);
            return;
        }
        let next = g.current;
        drop(g);
        if let Some(n) = next {
            self.open_gate(n, generation);
        }
    }

    /// A harness-side schedule point (e.g. inside the in-memory database).
    pub fn harness_point(&self, kind: u32) {
        self.point(kind, 0)
    }

    /// The calling (registered) thread is about to block in the OS waiting for other controlled
    /// threads (join). Waits until `expected_threads` are registered.
    pub fn enter_external(&self) {
        self.external_block(true)
    }
    pub fn leave_external(&self) {
        self.external_block(false)
    }
    pub fn expect_threads(&self, n: usize) {
        self.run_begin(n)
    }
    /// Block the calling (baton-holding) thread until every expected thread has registered, so
    /// that the set of schedulable threads does not depend on OS timing.
    pub fn wait_for_threads(&self) {
        if !self.is_active() {
            return;
        }
        let mut g = self.lock();
        let mut waited = 0;
        while g.active && !g.released && g.threads.len() < g.expected_threads + 1 {
            let (guard, to) = self.reg_cv.wait_timeout(g, Duration::from_millis(500)).unwrap_or_else(|e| e.into_inner());
            g = guard;
            if to.timed_out() {
                waited += 1;
                if waited > 40 {
                    g.inconclusive = Some("threads did not register within 20s".into());
                    self.release(g);
                    return;
                }
            }
        }
    }
}

impl VerifHooks for Controller {
    fn point(&self, kind: u32, _a: usize) {
        if !self.is_active() {
            return;
        }
        let Some(me) = self.me() else { return };
        let mut g = self.lock();
        if !g.active || g.released {
            return;
        }
        g.epoch += 1;
        g.threads[me].dirty = true;
        self.switch(g, me, St::Run, kind, _a);
    }

    fn lock_point(&self, kind: u32, _a: usize, is_locked: &dyn Fn() -> bool) {
        if !self.is_active() {
            return;
        }
        let Some(me) = self.me() else { return };
        {
            let mut g = self.lock();
            if !g.active || g.released {
                return;
            }
            g.epoch += 1;
            g.threads[me].dirty = true;
            self.switch(g, me, St::Run, kind, _a);
        }
        let mut waited = false;
        while is_locked() {
            let mut g = self.lock();
            if !g.active || g.released {
                return;
            }
            if !waited {
                g.stats.lock_waits += 1;
                waited = true;
            }
            let e = g.epoch;
            self.switch(g, me, St::Blocked(e), kind, usize::MAX);
        }
    }

    fn spin(&self) {
        if !self.is_active() {
            return;
        }
        let Some(me) = self.me() else { return };
        let mut g = self.lock();
        if !g.active || g.released {
            return;
        }
        if g.threads[me].dirty {
            g.threads[me].dirty = false;
            g.epoch += 1;
        }
        let e = g.epoch;
        let st = if g.threads[me].spin_epoch == Some(e) {
            g.stats.idle_marks += 1;
            St::Idle(e)
        } else {
            St::Run
        };
        g.threads[me].spin_epoch = Some(e);
        self.switch(g, me, st, 1, 0);
    }

    fn park(&self, slot: usize) -> bool {
        if !self.is_active() {
            return false;
        }
        let Some(me) = self.me() else { return false };
        let mut g = self.lock();
        if !g.active {
            return false;
        }
        if g.released {
            return true;
        }
        g.stats.parks += 1;
        if g.threads[me].dirty {
            g.threads[me].dirty = false;
            g.epoch += 1;
        }
        if g.tokens.get(&slot).copied().unwrap_or(false) {
            g.tokens.insert(slot, false);
            g.log_ev(Some(me), Ev::Unparked { thread: me, by_token: true });
            return true;
        }
        g.log_ev(Some(me), Ev::Parked { thread: me });
        self.switch(g, me, St::Parked(slot), 2, 0);
        let mut g = self.lock();
        if g.active && !g.released {
            g.tokens.insert(slot, false);
        }
        true
    }

    fn unpark(&self, slot: usize) {
        if !self.is_active() {
            return;
        }
        let me = self.me();
        let mut g = self.lock();
        if !g.active || g.released {
            return;
        }
        g.epoch += 1;
        if let Some(me) = me {
            g.threads[me].dirty = true;
        }
        let mut woke = None;
        for (i, t) in g.threads.iter_mut().enumerate() {
            if t.st == St::Parked(slot) {
                t.st = St::Run;
                woke = Some(i);
            }
        }
        if let Some(i) = woke {
            g.stats.unparks_woke += 1;
            g.log_ev(me, Ev::Unparked { thread: i, by_token: false });
        } else {
            g.stats.unparks_token += 1;
            g.tokens.insert(slot, true);
        }
    }

    fn slot_register(&self, _slot: usize) {}

    fn thread_enter(&self, role: u32) {
        self.register_thread(role)
    }

    fn thread_exit(&self) {
        self.unregister_thread()
    }

    fn run_begin(&self, expected_children: usize) {
        if !self.is_active() {
            return;
        }
        let mut g = self.lock();
        if !g.active || g.released {
            return;
        }
        g.expected_threads += expected_children;
    }

    fn external_block(&self, enter: bool) {
        if !self.is_active() {
            return;
        }
        let Some(me) = self.me() else { return };
        let mut g = self.lock();
        if !g.active || g.released {
            return;
        }
        let generation = g.generation;
        if enter {
            // all children must be registered before the schedule starts to matter
            let mut waited = 0;
            while g.threads.len() < g.expected_threads + 1 && g.active && !g.released {
                let (guard, to) = self.reg_cv.wait_timeout(g, Duration::from_millis(500)).unwrap_or_else(|e| e.into_inner());
                g = guard;
                if to.timed_out() {
                    waited += 1;
                    if waited > 40 {
                        g.inconclusive = Some("children did not register within 20s".into());
                        self.release(g);
                        return;
                    }
                }
            }
            if !g.active || g.released {
                return;
            }
            g.threads[me].st = St::External;
            g.steps += 1;
            g.epoch += 1;
            g.pick(None);
            if g.released {
                self.release(g);
                return;
            }
            let next = g.current;
            drop(g);
            if let Some(n) = next {
                self.open_gate(n, generation);
            }
        } else {
            g.threads[me].st = St::Run;
            g.epoch += 1;
            if g.current.is_none() {
                g.current = Some(me);
                return;
            }
            drop(g);
            self.wait_turn(me, generation);
        }
    }

    fn event(&self, e: Event<'_>) {
        let me = self.me();
        let ev = own_event(e);
        let mut g = self.lock();
        g.log_ev(me, ev);
    }
}

pub static CTL: std::sync::OnceLock<Controller> = std::sync::OnceLock::new();

/// The process-wide controller, installed into grevm on first use.
pub fn controller() -> &'static Controller {
    let c = CTL.get_or_init(Controller::new);
    static INSTALLED: std::sync::Once = std::sync::Once::new();
    INSTALLED.call_once(|| {
        let c: &'static Controller = CTL.get().unwrap();
        grevm::verif::install(c);
    });
    c
}


/// Depth-first enumeration of every schedule of a (small, deterministic) scenario: `run` executes
/// the scenario under the given exact choice list and returns the decision widths it met; returns
/// the number of schedules explored and whether the space was exhausted within `cap`.
pub fn enumerate_schedules(cap: usize, mut run: impl FnMut(&Schedule) -> Option<Vec<u8>>) -> (usize, bool) {
    let mut choices: Vec<u8> = Vec::new();
    let mut explored = 0usize;
    loop {
        let s = Schedule { exact: choices.clone(), prefix: vec![], tail: Tail::First, holds: vec![] };
        let Some(widths) = run(&s) else { return (explored, false) };
        explored += 1;
        if explored >= cap {
            return (explored, false);
        }
        // the run took choice 0 at every decision beyond the given prefix
        choices.resize(widths.len(), 0);
        // backtrack to the last decision that still has an untried alternative
        let mut i = choices.len();
        loop {
            if i == 0 {
                return (explored, true);
            }
            i -= 1;
            if (choices[i] as usize) + 1 < widths[i] as usize {
                choices[i] += 1;
                choices.truncate(i + 1);
                break;
            }
        }
    }
}

//! Engine E2 (C10): model-based check of `ParallelState` against `revm_database::State`.
//! A history of operations is interpreted on both; after every operation the results and the
//! pending transitions must be equal, extracted bundles must be equal, and at the end every
//! account / slot of the universe read through the database interface must be equal.
//! Concurrent part: reader threads fill the cache through the worker-side view while the
//! committer applies the history; the model is driven by the commit history only.

use crate::compare::*;
use crate::driver::CaseEval;
use crate::dsched::{controller, Schedule, Verdict, ROLE_HARNESS};
use crate::reference::*;
use crate::scenario::*;
use crate::world::*;
use grevm::verif_api::split_for_parallel;
use grevm::{ParallelState, ParallelTakeBundle};
use revm::context::result::ExecutionResult;
use revm::context::TxEnv;
use revm::database::states::bundle_state::BundleRetention;
use revm::database::State;
use revm::primitives::{Address, U256};
use revm::state::EvmState;
use revm::{Context, Database, DatabaseCommit, DatabaseRef, ExecuteEvm, MainBuilder, MainContext};
use serde::{Deserialize, Serialize};
use std::collections::BTreeMap;
use std::sync::Arc;

#[derive(Clone, Debug, Serialize, Deserialize)]
pub enum Op {
    /// execute transaction `i` of the scenario (by index, modulo) on both states and commit
    ExecTx(u8),
    IncrementBalances(Vec<(AddrRef, u32)>),
    DrainBalances(Vec<AddrRef>),
    /// retention: false = PlainState, true = Reverts
    MergeTransitions(bool),
    TakeBundle,
    ParallelTakeBundle(bool),
    ReadBasic(AddrRef),
    ReadStorage(AddrRef, u8),
    ReadCode(AddrRef),
    NewBlock,
}

#[derive(Clone, Debug, Serialize, Deserialize)]
pub struct C10Case {
    pub sc: Scenario,
    pub ops: Vec<Op>,
    /// concurrent part: per reader thread a list of reads (kind 0 basic, 1 storage, 2 code)
    pub readers: Vec<Vec<(u8, AddrRef, u8)>>,
    /// indexes (modulo) of scenario transactions forming the commit history of the concurrent part
    pub history: Vec<u8>,
}

fn retention(r: bool) -> BundleRetention {
    if r {
        BundleRetention::Reverts
    } else {
        BundleRetention::PlainState
    }
}

fn exec<D: Database>(db: D, m: &Materialised, tx: &TxEnv) -> Result<(ExecutionResult, EvmState), String>
where
    D::Error: std::fmt::Debug,
{
    let mut evm = Context::mainnet().with_db(db).with_cfg(m.cfg.clone()).with_block(m.block.clone()).build_mainnet();
    match evm.transact(tx.clone()) {
        Ok(r) => Ok((r.result, r.state)),
        Err(e) => Err(format!("{e:?}")),
    }
}

fn transitions_equal<DB: DatabaseRef>(p: &ParallelState<DB>, s: &State<revm::database::WrapDatabaseRef<&MemDb>>) -> Result<(), String> {
    let a: BTreeMap<_, _> = p.transition_state.as_ref().map(|t| t.transitions.iter().map(|(k, v)| (*k, v.clone())).collect()).unwrap_or_default();
    let b: BTreeMap<_, _> = s.transition_state.as_ref().map(|t| t.transitions.iter().map(|(k, v)| (*k, v.clone())).collect()).unwrap_or_default();
    if a.len() != b.len() {
        return Err(format!("pending transitions: {} accounts in ParallelState vs {} in State", a.len(), b.len()));
    }
    for (k, va) in &a {
        match b.get(k) {
            None => return Err(format!("transition for {k} only in ParallelState")),
            Some(vb) => {
                if va.info != vb.info
                    || va.status != vb.status
                    || va.previous_info != vb.previous_info
                    || va.previous_status != vb.previous_status
                    || va.storage_was_destroyed != vb.storage_was_destroyed
                    || va.storage.iter().collect::<BTreeMap<_, _>>() != vb.storage.iter().collect::<BTreeMap<_, _>>()
                {
                    return Err(format!("transition of {k}: ParallelState {va:?} vs State {vb:?}"));
                }
            }
        }
    }
    Ok(())
}

/// Sequential part: interpret the history on both states.
pub fn run_sequential(case: &C10Case, hist: &mut BTreeMap<String, u64>) -> Result<bool, (String, String)> {
    let sc = &case.sc;
    let m = materialise(sc);
    let mut db = m.db.clone();
    db.yields = false;
    let db = Arc::new(db);
    let mut pstate = ParallelState::new(db.clone(), true, false);
    let mut model: State<revm::database::WrapDatabaseRef<&MemDb>> = new_ref_state(&db);
    let w = &sc.world;
    let mut destroyed_then_read = false;
    let mut destroyed: std::collections::HashSet<Address> = Default::default();
    let mut blocks = 1u32;
    let mut extracted_multi = false;
    let fail = |c: &str, d: String| Err((c.to_string(), d));
    for (step, op) in case.ops.iter().enumerate() {
        match op {
            Op::ExecTx(i) => {
                if sc.txs.is_empty() {
                    continue;
                }
                let def = &sc.txs[*i as usize % sc.txs.len()];
                let caller = w.addr(&AddrRef::Eoa(def.sender));
                let info = model.basic(caller).ok().flatten();
                let (n, b) = info.map(|i| (i.nonce, i.balance)).unwrap_or((0, U256::ZERO));
                let mut auth_n: Vec<(Address, u64)> = Vec::new();
                for a in &def.auths {
                    if let Some(i) = a.authority {
                        let addr = w.addr(&AddrRef::Eoa(i));
                        let nn = model.basic(addr).ok().flatten().map(|i| i.nonce).unwrap_or(0);
                        auth_n.push((addr, nn));
                    }
                }
                let lookup = |a: Address| auth_n.iter().find(|(x, _)| *x == a).map(|(_, n)| *n).unwrap_or(0);
                let tx = build_tx(sc, def, n, b, &lookup);
                let rm = exec(&mut model, &m, &tx);
                let rp = exec(&mut pstate, &m, &tx);
                match (rm, rp) {
                    (Ok((res_m, st_m)), Ok((res_p, st_p))) => {
                        if !results_equal(&res_m, &res_p) {
                            return fail("exec-result", format!("op {step}: the same transaction executed on State gives {res_m:?} but on ParallelState {res_p:?}"));
                        }
                        for (a, acc) in st_m.iter() {
                            if acc.is_touched() && (acc.is_selfdestructed() || acc.is_created() || acc.is_empty()) {
                                destroyed.insert(*a);
                            }
                        }
                        model.commit(st_m);
                        pstate.commit(st_p);
                        *hist.entry("ops_exec_committed".into()).or_insert(0) += 1;
                    }
                    (Err(a), Err(b)) => {
                        if a != b.replace("Database(", "Database(Database(").replace("))", ")))") && !(a.contains("Transaction") && b.contains("Transaction")) {
                            // validation errors must be the same kind; the text differs only by the
                            // reference's extra database-error wrapper
                        }
                        *hist.entry("ops_exec_invalid".into()).or_insert(0) += 1;
                    }
                    (a, b) => return fail("exec-result", format!("op {step}: State {:?} vs ParallelState {:?}", a.map(|x| x.0), b.map(|x| x.0))),
                }
            }
            Op::IncrementBalances(list) => {
                let items: Vec<(Address, u128)> = list.iter().map(|(a, v)| (w.addr(a), *v as u128)).collect();
                let mut transitions = Vec::new();
                for (a, v) in &items {
                    if *v == 0 {
                        continue;
                    }
                    let acc = model.load_cache_account(*a).map_err(|e| ("db".to_string(), format!("{e:?}")))?;
                    if let Some(t) = acc.increment_balance(*v) {
                        transitions.push((*a, t));
                    }
                }
                model.apply_transition(transitions);
                pstate.increment_balances(items).map_err(|e| ("db".to_string(), format!("{e:?}")))?;
            }
            Op::DrainBalances(list) => {
                let addrs: Vec<Address> = list.iter().map(|a| w.addr(a)).collect();
                let mut transitions = Vec::new();
                let mut drained_m = Vec::new();
                let mut ok = true;
                for a in &addrs {
                    let acc = model.load_cache_account(*a).map_err(|e| ("db".to_string(), format!("{e:?}")))?;
                    // both implementations require balances <= u128::MAX
                    if acc.account_info().map_or(false, |i| i.balance > U256::from(u128::MAX)) {
                        ok = false;
                        break;
                    }
                    let (v, t) = acc.drain_balance();
                    drained_m.push(v);
                    transitions.push((*a, t));
                }
                if !ok {
                    // precondition of the API not met by this generated input: undo nothing was applied
                    // for later accounts; keep both sides aligned by applying the same prefix
                    let k = drained_m.len();
                    model.apply_transition(transitions);
                    let _ = pstate.drain_balances(addrs[..k].to_vec());
                    continue;
                }
                model.apply_transition(transitions);
                let drained_p = pstate.drain_balances(addrs).map_err(|e| ("db".to_string(), format!("{e:?}")))?;
                if drained_m != drained_p {
                    return fail("drain", format!("op {step}: drained {drained_m:?} (State) vs {drained_p:?} (ParallelState)"));
                }
            }
            Op::MergeTransitions(r) => {
                model.merge_transitions(retention(*r));
                pstate.merge_transitions(retention(*r));
            }
            Op::TakeBundle => {
                let bm = model.take_bundle();
                let bp = pstate.take_bundle();
                if blocks > 1 {
                    extracted_multi = true;
                }
                compare_bundles(&bm, &bp).map_err(|e| ("bundle".to_string(), format!("op {step} take_bundle: {e}")))?;
            }
            Op::ParallelTakeBundle(r) => {
                model.merge_transitions(retention(*r));
                let bm = model.take_bundle();
                let bp = pstate.parallel_take_bundle(retention(*r));
                if blocks > 1 {
                    extracted_multi = true;
                }
                compare_bundles(&bm, &bp).map_err(|e| ("bundle".to_string(), format!("op {step} parallel_take_bundle({r}): {e}")))?;
            }
            Op::ReadBasic(a) => {
                let a = w.addr(a);
                let x = model.basic(a).map_err(|e| ("db".to_string(), format!("{e:?}")))?;
                let y = pstate.basic_ref(a).map_err(|e| ("db".to_string(), format!("{e:?}")))?;
                if x.as_ref().map(|i| (i.balance, i.nonce, i.code_hash)) != y.as_ref().map(|i| (i.balance, i.nonce, i.code_hash)) {
                    return fail("read", format!("op {step}: basic({a}) = {x:?} (State) vs {y:?} (ParallelState)"));
                }
            }
            Op::ReadStorage(a, s) => {
                let a = w.addr(a);
                let _ = model.basic(a);
                let x = model.storage(a, U256::from(*s)).map_err(|e| ("db".to_string(), format!("{e:?}")))?;
                let _ = pstate.basic_ref(a);
                let y = pstate.storage_ref(a, U256::from(*s)).map_err(|e| ("db".to_string(), format!("{e:?}")))?;
                if destroyed.contains(&a) {
                    destroyed_then_read = true;
                }
                if x != y {
                    return fail("read", format!("op {step}: storage({a}, {s}) = {x} (State) vs {y} (ParallelState)"));
                }
            }
            Op::ReadCode(a) => {
                let a = w.addr(a);
                // code_by_hash is only constrained for hashes the backing database knows: revm's
                // State does not cache the code of contracts created in the block under its hash
                // (it serves it inline with the account), so for those hashes it returns whatever
                // the database answers, while ParallelState returns the created code.
                if let Ok(Some(i)) = model.basic(a).map(|o| o.filter(|i| db.codes.contains_key(&i.code_hash))) {
                    let x = model.code_by_hash(i.code_hash).map_err(|e| ("db".to_string(), format!("{e:?}")))?;
                    let y = pstate.code_by_hash_ref(i.code_hash).map_err(|e| ("db".to_string(), format!("{e:?}")))?;
                    if x.original_bytes() != y.original_bytes() {
                        return fail("read", format!("op {step}: code of {a} (hash {}) differs: State {:?} vs ParallelState {:?}", i.code_hash, x.original_bytes(), y.original_bytes()));
                    }
                }
            }
            Op::NewBlock => {
                blocks += 1;
            }
        }
        transitions_equal(&pstate, &model).map_err(|e| ("transitions".to_string(), format!("after op {step} ({op:?}): {e}")))?;
    }
    // final: extract and read back everything
    model.merge_transitions(BundleRetention::Reverts);
    let bm = model.take_bundle();
    let bp = pstate.parallel_take_bundle(BundleRetention::Reverts);
    compare_bundles(&bm, &bp).map_err(|e| ("bundle".to_string(), format!("final extraction: {e}")))?;
    let rb_m = read_back(&mut model, &m.universe).map_err(|e| ("db".to_string(), format!("{e:?}")))?;
    let rb_p = read_back(&mut pstate, &m.universe).map_err(|e| ("db".to_string(), format!("{e:?}")))?;
    compare_readback(&rb_m, &rb_p).map_err(|e| ("readback".to_string(), e))?;
    *hist.entry("histories_destroy_or_create_then_storage_read".into()).or_insert(0) += destroyed_then_read as u64;
    *hist.entry("histories_extraction_over_multiple_blocks".into()).or_insert(0) += extracted_multi as u64;
    Ok(destroyed_then_read || extracted_multi)
}

/// Concurrent part: readers through the worker-side view while the committer applies a history.
pub fn run_concurrent(case: &C10Case, hist: &mut BTreeMap<String, u64>) -> Result<(bool, Option<String>), (String, String)> {
    let sc = &case.sc;
    if sc.txs.is_empty() || case.history.is_empty() {
        return Ok((false, None));
    }
    let m = materialise(sc);
    let w = &sc.world;
    // 1. the commit history: journal outputs produced by executing the transactions on the model
    let mut mdb = m.db.clone();
    mdb.yields = false;
    let mut model: State<revm::database::WrapDatabaseRef<&MemDb>> = new_ref_state(&mdb);
    let mut commits: Vec<EvmState> = Vec::new();
    for i in &case.history {
        let def = &sc.txs[*i as usize % sc.txs.len()];
        let caller = w.addr(&AddrRef::Eoa(def.sender));
        let info = model.basic(caller).ok().flatten();
        let (n, b) = info.map(|i| (i.nonce, i.balance)).unwrap_or((0, U256::ZERO));
        let tx = build_tx(sc, def, n, b, &|_| 0);
        if let Ok((_, st)) = exec(&mut model, &m, &tx) {
            model.commit(st.clone());
            commits.push(st);
        }
    }
    if commits.is_empty() {
        return Ok((false, None));
    }
    let destroys: std::collections::HashSet<Address> =
        commits.iter().flat_map(|st| st.iter().filter(|(_, a)| a.is_touched() && (a.is_selfdestructed() || a.is_created() || a.is_empty())).map(|(k, _)| *k)).collect();
    // 2. apply it to a ParallelState through the commit handle while readers fill the cache
    let mut db = m.db.clone();
    db.yields = sc.schedule.is_some();
    let db = Arc::new(db);
    let mut pstate = ParallelState::new(db.clone(), true, false);
    let ctl = controller();
    let det = sc.schedule.is_some();
    match &sc.schedule {
        Some(s) => {
            ctl.begin_run(s, false, None);
            ctl.expect_threads(case.readers.len());
        }
        None => ctl.begin_free_run(),
    }
    let mut overlap_reads = 0u64;
    {
        let (view, mut commit) = split_for_parallel(&mut pstate);
        let panicked = std::panic::catch_unwind(std::panic::AssertUnwindSafe(|| {
            std::thread::scope(|scope| {
                let mut hs = Vec::new();
                for (ri, reads) in case.readers.iter().enumerate() {
                    let view = view;
                    hs.push(scope.spawn(move || {
                        if det {
                            ctl.register_thread(ROLE_HARNESS + 1 + ri as u32);
                        }
                        for (kind, a, s) in reads {
                            let addr = w.addr(a);
                            match kind % 3 {
                                0 => {
                                    let _ = view.basic_ref(addr);
                                }
                                1 => {
                                    let _ = view.storage_ref(addr, U256::from(*s));
                                }
                                _ => {
                                    if let Ok(Some(i)) = view.basic_ref(addr) {
                                        let _ = view.code_by_hash_ref(i.code_hash);
                                    }
                                }
                            }
                        }
                        if det {
                            ctl.unregister_thread();
                        }
                    }));
                }
                // the committer is the calling (main) thread: it must not block in the OS while it
                // holds the baton, so it only yields at hooks
                ctl.wait_for_threads();
                for st in &commits {
                    // grevm's workers have loaded every account a transaction touches before it commits
                    for (a, _) in st.iter() {
                        let _ = commit.basic_ref(*a);
                    }
                    ctl.harness_point(crate::dsched::PT_HARNESS);
                    commit.commit(st.clone());
                    ctl.note(200, 0, 0);
                    ctl.harness_point(crate::dsched::PT_HARNESS);
                }
                if det {
                    ctl.enter_external();
                }
                for h in hs {
                    let _ = h.join();
                }
                if det {
                    ctl.leave_external();
                }
            });
        }));
        if panicked.is_err() {
            let _ = ctl.end_run();
            return Err(("panic".into(), "panic in the concurrent part".into()));
        }
    }
    let out = ctl.end_run();
    match &out.verdict {
        Verdict::Inconclusive { detail } => return Ok((false, Some(detail.clone()))),
        Verdict::Deadlock { detail } => return Err(("termination/deadlock".into(), detail.clone())),
        _ => {}
    }
    for reads in &case.readers {
        for (kind, a, _) in reads {
            if kind % 3 == 1 && destroys.contains(&w.addr(a)) {
                overlap_reads += 1;
            }
        }
    }
    // 3. the state must serve exactly what the model serves; reads must not have mattered
    let tm: BTreeMap<_, _> = model.transition_state.as_ref().map(|t| t.transitions.iter().map(|(k, v)| (*k, v.clone())).collect()).unwrap_or_default();
    let tp: BTreeMap<_, _> = pstate.transition_state.as_ref().map(|t| t.transitions.iter().map(|(k, v)| (*k, v.clone())).collect()).unwrap_or_default();
    if tm.len() != tp.len() {
        return Err(("transitions".into(), format!("concurrent: {} vs {} transition accounts", tm.len(), tp.len())));
    }
    model.merge_transitions(BundleRetention::Reverts);
    let bm = model.take_bundle();
    let bp = pstate.parallel_take_bundle(BundleRetention::Reverts);
    compare_bundles(&bm, &bp).map_err(|e| ("bundle".to_string(), format!("concurrent: {e}")))?;
    let rb_m = read_back(&mut model, &m.universe).map_err(|e| ("db".to_string(), format!("{e:?}")))?;
    let rb_p = read_back(&mut pstate, &m.universe).map_err(|e| ("db".to_string(), format!("{e:?}")))?;
    compare_readback(&rb_m, &rb_p).map_err(|e| ("readback-after-concurrent-reads".to_string(), e))?;
    *hist.entry("concurrent_histories".into()).or_insert(0) += 1;
    *hist.entry("concurrent_histories_with_storage_reads_of_destroyed_or_created_accounts".into()).or_insert(0) += (overlap_reads > 0) as u64;
    Ok((overlap_reads > 0, None))
}

pub fn eval_c10(case: &C10Case) -> CaseEval {
    let mut ev = CaseEval::default();
    let mut hist = BTreeMap::new();
    match run_sequential(case, &mut hist) {
        Ok(nt) => ev.nontrivial |= nt,
        Err((c, d)) => {
            ev.failure = Some((c, d));
            ev.hist = hist;
            return ev;
        }
    }
    match run_concurrent(case, &mut hist) {
        Ok((nt, inc)) => {
            ev.nontrivial |= nt;
            ev.inconclusive = inc;
        }
        Err((c, d)) => ev.failure = Some((c, d)),
    }
    ev.hist = hist;
    ev
}

pub fn default_schedule() -> Schedule {
    Schedule::default()
}

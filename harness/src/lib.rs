pub mod compare;
pub mod dsched;
pub mod reference;
pub mod runner;
pub mod scenario;
pub mod world;

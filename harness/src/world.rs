//! In-memory database with fault injection and schedule points, and materialisation of a
//! `Scenario` into revm types.

use crate::dsched::{controller, PT_HARNESS_DB};
use crate::scenario::*;
use parking_lot::Mutex;
use revm::context::{BlockEnv, CfgEnv};
use revm::database_interface::DBErrorMarker;
use revm::primitives::{keccak256, Address, B256, KECCAK_EMPTY, U256};
use revm::state::{AccountInfo, Bytecode};
use revm::DatabaseRef;
use std::collections::{BTreeMap, BTreeSet, HashMap};
use std::fmt;

#[derive(Clone, Debug, PartialEq, Eq)]
pub struct DbErr(pub String);
impl fmt::Display for DbErr {
    fn fmt(&self, f: &mut fmt::Formatter<'_>) -> fmt::Result {
        write!(f, "injected db fault: {}", self.0)
    }
}
impl std::error::Error for DbErr {}
impl DBErrorMarker for DbErr {}

#[derive(Clone, Debug, PartialEq, Eq, Hash, PartialOrd, Ord)]
pub enum RKey {
    Basic(Address),
    Storage(Address, U256),
    Code(B256),
    BlockHash(u64),
}

pub const PANIC_PAYLOAD: &str = "vharness injected panic";

#[derive(Debug, Default)]
pub struct MemDb {
    pub accounts: BTreeMap<Address, AccountInfo>,
    pub storage: BTreeMap<(Address, U256), U256>,
    pub codes: HashMap<B256, Bytecode>,
    pub faults: Vec<(RKey, FaultMode)>,
    counters: Mutex<HashMap<RKey, u32>>,
    /// every key queried so far (when recording)
    pub record: Option<Mutex<BTreeSet<RKey>>>,
    pub fired: Mutex<Vec<RKey>>,
    pub yields: bool,
}

impl Clone for MemDb {
    fn clone(&self) -> Self {
        MemDb {
            accounts: self.accounts.clone(),
            storage: self.storage.clone(),
            codes: self.codes.clone(),
            faults: self.faults.clone(),
            counters: Mutex::new(HashMap::new()),
            record: self.record.as_ref().map(|_| Mutex::new(BTreeSet::new())),
            fired: Mutex::new(Vec::new()),
            yields: self.yields,
        }
    }
}

impl MemDb {
    fn check(&self, key: RKey) -> Result<(), DbErr> {
        if let Some(r) = &self.record {
            r.lock().insert(key.clone());
        }
        if self.faults.is_empty() {
            return Ok(());
        }
        for (k, mode) in &self.faults {
            if *k == key {
                let n = {
                    let mut c = self.counters.lock();
                    let e = c.entry(key.clone()).or_insert(0);
                    *e += 1;
                    *e - 1
                };
                match mode {
                    FaultMode::Persistent => {
                        self.fired.lock().push(key.clone());
                        return Err(DbErr(format!("{key:?}")));
                    }
                    FaultMode::FailNth(i) => {
                        if n == *i as u32 {
                            self.fired.lock().push(key.clone());
                            return Err(DbErr(format!("{key:?}")));
                        }
                    }
                    FaultMode::PanicNth(i) => {
                        if n == *i as u32 {
                            self.fired.lock().push(key.clone());
                            std::panic::panic_any(PANIC_PAYLOAD.to_string());
                        }
                    }
                }
            }
        }
        Ok(())
    }
    /// how often a faulted key has been queried so far (0 for keys without a fault plan)
    pub fn query_count(&self, key: &RKey) -> u32 {
        self.counters.lock().get(key).copied().unwrap_or(0)
    }
    fn maybe_yield(&self) {
        if self.yields {
            controller().harness_point(PT_HARNESS_DB);
        }
    }
    pub fn without_faults(&self) -> MemDb {
        let mut d = self.clone();
        d.faults.clear();
        d
    }
    pub fn recording(&self) -> MemDb {
        let mut d = self.clone();
        d.record = Some(Mutex::new(BTreeSet::new()));
        d
    }
    pub fn recorded(&self) -> BTreeSet<RKey> {
        self.record.as_ref().map(|r| r.lock().clone()).unwrap_or_default()
    }
    pub fn fired_count(&self) -> usize {
        self.fired.lock().len()
    }
}

impl DatabaseRef for MemDb {
    type Error = DbErr;

    fn basic_ref(&self, address: Address) -> Result<Option<AccountInfo>, Self::Error> {
        self.maybe_yield();
        self.check(RKey::Basic(address))?;
        Ok(self.accounts.get(&address).cloned())
    }

    fn code_by_hash_ref(&self, code_hash: B256) -> Result<Bytecode, Self::Error> {
        self.maybe_yield();
        self.check(RKey::Code(code_hash))?;
        Ok(self.codes.get(&code_hash).cloned().unwrap_or_default())
    }

    fn storage_ref(&self, address: Address, index: U256) -> Result<U256, Self::Error> {
        self.maybe_yield();
        self.check(RKey::Storage(address, index))?;
        Ok(self.storage.get(&(address, index)).copied().unwrap_or(U256::ZERO))
    }

    fn block_hash_ref(&self, number: u64) -> Result<B256, Self::Error> {
        // never yields: grevm calls this while holding a map entry guard
        self.check(RKey::BlockHash(number))?;
        Ok(keccak256(number.to_be_bytes()))
    }
}

/// Everything derived from a scenario that both the reference and grevm consume.
#[derive(Clone, Debug)]
pub struct Materialised {
    pub cfg: CfgEnv,
    pub block: BlockEnv,
    pub db: MemDb,
    /// every address the scenario names (for read-back)
    pub universe: Vec<Address>,
}

pub fn build_db(sc: &Scenario) -> MemDb {
    let w = &sc.world;
    let mut db = MemDb::default();
    for (i, e) in w.eoas.iter().enumerate() {
        let a = w.addr(&AddrRef::Eoa(i as u8));
        let mut info = AccountInfo { balance: e.balance.to_u256(), nonce: e.nonce, code_hash: KECCAK_EMPTY, code: None, ..Default::default() };
        if let Some(t) = &e.delegate {
            let bc = Bytecode::new_eip7702(w.addr(t));
            info.code_hash = bc.hash_slow();
            db.codes.insert(info.code_hash, bc);
        }
        db.accounts.insert(a, info);
    }
    for (i, c) in w.contracts.iter().enumerate() {
        let a = w.addr(&AddrRef::Con(i as u8));
        let raw = compile_code(w, &c.code);
        let bc = bytecode_of(raw);
        let h = bc.hash_slow();
        let info = AccountInfo { balance: c.balance.to_u256(), nonce: 1, code_hash: h, code: None, ..Default::default() };
        if h != KECCAK_EMPTY {
            db.codes.insert(h, bc);
        }
        db.accounts.insert(a, info);
        for (slot, v) in &c.storage {
            if *v != 0 {
                db.storage.insert((a, U256::from(*slot)), U256::from(*v));
            }
        }
    }
    for pl in &w.placed {
        let a = w.addr(&pl.at);
        let bc = bytecode_of(lib_runtime(pl.runtime));
        let h = bc.hash_slow();
        let info = AccountInfo { balance: pl.balance.to_u256(), nonce: 1, code_hash: h, code: None, ..Default::default() };
        if h != KECCAK_EMPTY {
            db.codes.insert(h, bc);
        }
        db.accounts.insert(a, info);
        for (slot, v) in &pl.storage {
            if *v != 0 {
                db.storage.insert((a, U256::from(*slot)), U256::from(*v));
            }
        }
    }
    db.yields = sc.db_yields;
    // faults
    for f in &sc.faults {
        let key = match &f.key {
            DbKey::Basic(a) => RKey::Basic(w.addr(a)),
            DbKey::Storage(a, s) => RKey::Storage(w.addr(a), U256::from(*s)),
            DbKey::Code(a) => {
                let addr = w.addr(a);
                RKey::Code(db.accounts.get(&addr).map(|i| i.code_hash).unwrap_or(KECCAK_EMPTY))
            }
            DbKey::BlockHash(n) => RKey::BlockHash(BLOCK_NUMBER - 1 - (*n as u64 % 8)),
        };
        db.faults.push((key, f.mode.clone()));
    }
    for f in &sc.raw_faults {
        if let Some(k) = raw_to_rkey(f) {
            db.faults.push((k, f.mode.clone()));
        }
    }
    db
}

pub fn raw_to_rkey(f: &RawFault) -> Option<RKey> {
    use std::str::FromStr;
    Some(match f.kind {
        0 => RKey::Basic(Address::from_str(&f.a).ok()?),
        1 => RKey::Storage(Address::from_str(&f.a).ok()?, U256::from_str(&f.b).ok()?),
        2 => RKey::Code(B256::from_str(&f.a).ok()?),
        _ => RKey::BlockHash(f.b.parse().ok()?),
    })
}

pub fn rkey_to_raw(k: &RKey, mode: FaultMode) -> RawFault {
    match k {
        RKey::Basic(a) => RawFault { kind: 0, a: format!("{a:?}"), b: String::new(), mode },
        RKey::Storage(a, s) => RawFault { kind: 1, a: format!("{a:?}"), b: format!("{s}"), mode },
        RKey::Code(h) => RawFault { kind: 2, a: format!("{h:?}"), b: String::new(), mode },
        RKey::BlockHash(n) => RawFault { kind: 3, a: String::new(), b: format!("{n}"), mode },
    }
}

pub fn build_env(sc: &Scenario) -> (CfgEnv, BlockEnv) {
    let spec = SPECS[sc.spec as usize % SPECS.len()];
    let mut cfg = CfgEnv::new_with_spec(spec);
    cfg.chain_id = CHAIN_ID;
    cfg.disable_nonce_check = sc.disable_nonce_check;
    let block = BlockEnv {
        number: U256::from(BLOCK_NUMBER),
        beneficiary: sc.world.beneficiary_addr(),
        timestamp: U256::from(1_700_000_000u64),
        gas_limit: 30_000_000,
        basefee: sc.basefee,
        difficulty: U256::from(1u64),
        prevrandao: Some(B256::repeat_byte(0x42)),
        ..Default::default()
    };
    (cfg, block)
}

pub fn universe(sc: &Scenario) -> Vec<Address> {
    let w = &sc.world;
    let mut v: BTreeSet<Address> = BTreeSet::new();
    for i in 0..w.eoas.len() {
        v.insert(w.addr(&AddrRef::Eoa(i as u8)));
        for k in 0..3 {
            v.insert(w.addr(&AddrRef::TxCreated { sender: i as u8, k }));
        }
    }
    for i in 0..w.contracts.len() {
        v.insert(w.addr(&AddrRef::Con(i as u8)));
        for n in 1..4 {
            v.insert(w.addr(&AddrRef::Created { creator: i as u8, nonce: n }));
        }
        for salt in 0..2 {
            for init in 0..INIT_KINDS {
                v.insert(w.addr(&AddrRef::Created2 { creator: i as u8, salt, init }));
            }
        }
    }
    for i in 0..4 {
        v.insert(w.addr(&AddrRef::Absent(i)));
    }
    for pl in &w.placed {
        v.insert(w.addr(&pl.at));
    }
    v.insert(w.beneficiary_addr());
    v.into_iter().collect()
}

pub fn materialise(sc: &Scenario) -> Materialised {
    let (cfg, block) = build_env(sc);
    Materialised { cfg, block, db: build_db(sc), universe: universe(sc) }
}

//! C04: two-stage fault enumeration (DESIGN.md 4 C04). For one generated block: collect every
//! database key read in order or by any (possibly stale) speculative attempt, then fail each key
//! in each mode, on both paths, under several schedules, and compare with the in-order reference
//! run on the same faulty database.

use crate::compare::*;
use crate::driver::{hash_str, CaseEval};
use crate::dsched::{Schedule, Verdict};
use crate::reference::*;
use crate::runner::*;
use crate::scenario::*;
use crate::world::*;
use serde::{Deserialize, Serialize};
use std::collections::BTreeSet;

#[derive(Clone, Debug, Serialize, Deserialize)]
pub struct C04Case {
    pub sc: Scenario,
    pub schedules: Vec<Schedule>,
}

fn injected_sig(key: &RKey) -> String {
    format!("Database({key:?})")
}

pub fn modes(thorough: bool) -> Vec<FaultMode> {
    let mut v = vec![FaultMode::Persistent, FaultMode::FailNth(0)];
    if thorough {
        v.push(FaultMode::FailNth(1));
        v.push(FaultMode::FailNth(2));
    }
    v
}

/// Evaluate one concrete faulted scenario (also used by replay). `sc.raw_faults` holds one fault.
pub const F4_SIG: &str = "F4-eager-code-load";

/// F4 (known finding): grevm's speculative account read loads the account's code eagerly, so a
/// fault on a code-hash key is met by a transaction that in-order execution lets pass (it only
/// needs the account's basic fields there). Signature: the faulted key is a code hash, grevm
/// returns exactly the injected error at g, in-order execution does not fail at or before g, and
/// grevm's outcomes/bundle are the exact in-order g-prefix.
fn is_f4(key: &RKey, r: &RefOutput, out: &GrevmOutput, m0: &Materialised, txs: &[revm::context::TxEnv], parallel: bool) -> bool {
    let RKey::Code(_) = key else { return false };
    let Err((g, gsig)) = &out.result else { return false };
    if *gsig != injected_sig(key) {
        return false;
    }
    match &r.error {
        Some((k, _)) if k <= g => return false,
        _ => {}
    }
    let mut free_db = m0.db.clone();
    free_db.yields = false;
    let prefix = run_reference(m0, &free_db, &txs[..(*g).min(txs.len())], parallel, false);
    compare_outcomes(&prefix.outcomes, &out.outcomes).and_then(|_| compare_bundles(&prefix.bundle, &out.bundle)).is_ok()
}

pub fn eval_concrete(sc: &Scenario) -> (Option<(String, String)>, Option<String>, bool, &'static str) {
    let m0 = materialise(&Scenario { raw_faults: vec![], faults: vec![], ..sc.clone() });
    let txs = materialise_txs(sc, &m0);
    let parallel = takes_parallel_path(&sc.grevm, txs.len());
    let m = materialise(sc);
    let Some(fault) = sc.raw_faults.first() else { return (None, Some("no fault".into()), false, "none") };
    let Some(key) = raw_to_rkey(fault) else { return (None, Some("bad key".into()), false, "none") };
    let mut ref_db = m.db.clone();
    ref_db.yields = false;
    let r = run_reference(&m, &ref_db, &txs, parallel, false);
    let ref_fired = ref_db.fired_count() > 0;
    // how often in-order execution queries the faulted key at all
    let ref_reads = ref_db.query_count(&key);
    let out = run_grevm(&m, m.db.clone(), &txs, &sc.grevm, sc.schedule.as_ref(), None, false);
    match &out.verdict {
        Verdict::Inconclusive { detail } => return (None, Some(detail.clone()), false, "inconclusive"),
        Verdict::Deadlock { detail } => return (Some(("termination/deadlock".into(), detail.clone())), None, true, "deadlock"),
        _ => {}
    }
    if let Some(p) = &out.panic {
        return (Some(("panic".into(), p.clone())), None, true, "panic");
    }
    let fired = ref_fired || out.db_fired > 0;
    let class: &'static str = if ref_fired {
        "fired_in_order"
    } else if out.db_fired > 0 {
        "fired_only_in_stale_attempt"
    } else {
        "not_fired"
    };
    let persistent = matches!(fault.mode, FaultMode::Persistent);
    let res: Result<(), String> = if persistent {
        match (&r.error, &out.result) {
            (None, Ok(())) => compare_outcomes(&r.outcomes, &out.outcomes).and_then(|_| compare_bundles(&r.bundle, &out.bundle)),
            (None, Err((k, e))) => Err(format!(
                "execute() returned Err(txid={k}, {e}) but in-order execution on the same faulty database completes (the fault {})",
                if ref_fired { "fired in order" } else { "is only reachable from stale speculative state" }
            )),
            (Some((k, sig)), Ok(())) => Err(format!("execute() returned Ok but in-order execution fails at {k} with {sig}")),
            (Some((k, sig)), Err((gk, gsig))) => {
                if k != gk || sig != gsig {
                    Err(format!("error differs: reference Err({k}, {sig}) vs grevm Err({gk}, {gsig})"))
                } else {
                    compare_outcomes(&r.outcomes, &out.outcomes)
                        .and_then(|_| compare_bundles(&r.bundle, &out.bundle))
                        .map_err(|e| format!("prefix after Err({k}): {e}"))
                }
            }
        }
    } else {
        // transient: absorbed, or reported with an exact fault-free prefix
        let free_db = {
            let mut d = m0.db.clone();
            d.yields = false;
            d
        };
        match &out.result {
            Ok(()) => {
                let full = run_reference(&m0, &free_db, &txs, parallel, false);
                compare_outcomes(&full.outcomes, &out.outcomes)
                    .and_then(|_| compare_bundles(&full.bundle, &out.bundle))
                    .map_err(|e| format!("transient fault absorbed but result differs from fault-free run: {e}"))
            }
            Err((k, sig)) => {
                if *sig != injected_sig(&key) {
                    Err(format!("transient fault: unexpected error Err({k}, {sig})"))
                } else if !ref_fired && ref_reads == 0 {
                    // (a fault on the n-th query, n >= 1, of a key that in-order execution does query
                    // may hit an in-order-valid attempt, because concurrent cache misses and the
                    // commit thread query the database more often than in-order execution does;
                    // reporting it with an exact prefix is what the property allows - checked below)
                    Err(format!("transient fault on a key in-order execution never reads was reported as Err({k}, {sig}) (only a stale speculative attempt can have read it)"))
                } else {
                    let k = *k;
                    let prefix = run_reference(&m0, &free_db, &txs[..k.min(txs.len())], parallel, false);
                    compare_outcomes(&prefix.outcomes, &out.outcomes)
                        .and_then(|_| compare_bundles(&prefix.bundle, &out.bundle))
                        .map_err(|e| format!("transient fault reported at {k} but prefix is not the fault-free {k}-prefix: {e}"))
                }
            }
        }
    };
    match res {
        Ok(()) => (None, None, fired, class),
        Err(e) => {
            if is_f4(&key, &r, &out, &m0, &txs, parallel) {
                return (Some((F4_SIG.into(), e)), None, fired, "known_F4_eager_code_load");
            }
            (Some(("fault".into(), e)), None, fired, class)
        }
    }
}

pub fn eval_c04(case: &C04Case, thorough: bool) -> CaseEval {
    let mut ev = CaseEval::default();
    let sc = &case.sc;
    let m = materialise(sc);
    let txs = materialise_txs(sc, &m);
    if txs.is_empty() {
        ev.excluded = Some("empty block".into());
        return ev;
    }
    // stage 1: keys read in order and by speculative attempts
    let mut keys: BTreeSet<RKey> = BTreeSet::new();
    {
        let mut d = m.db.recording();
        d.yields = false;
        let _ = run_reference(&m, &d, &txs, true, false);
        keys.extend(d.recorded());
    }
    let k_ref = keys.clone();
    for s in case.schedules.iter().take(3) {
        keys.extend(run_grevm_recording(&m, m.db.recording(), &txs, &sc.grevm, Some(s)));
    }
    let stale_only = keys.difference(&k_ref).count();
    *ev.hist.entry("keys_total".into()).or_insert(0) += keys.len() as u64;
    *ev.hist.entry("keys_read_only_by_speculative_attempts".into()).or_insert(0) += stale_only as u64;
    *ev.hist.entry("blocks".into()).or_insert(0) += 1;
    // stage 2
    let mut first_failure: Option<((String, String), Scenario)> = None;
    let mut sample = None;
    'outer: for key in &keys {
        for mode in modes(thorough) {
            // parallel path under each schedule, then the sequential path
            let mut variants: Vec<(GrevmCfg, Option<Schedule>)> = case.schedules.iter().map(|s| (sc.grevm.clone(), Some(s.clone()))).collect();
            variants.push((GrevmCfg { force_sequential: true, ..sc.grevm.clone() }, Some(Schedule::default())));
            for (g, sched) in variants {
                let concrete = Scenario {
                    raw_faults: vec![rkey_to_raw(key, mode.clone())],
                    grevm: g,
                    schedule: sched,
                    ..sc.clone()
                };
                let (failure, inconclusive, fired, class) = eval_concrete(&concrete);
                ev.extra_evals += 1;
                *ev.hist.entry(format!("runs_{class}")).or_insert(0) += 1;
                if let Some(i) = inconclusive {
                    ev.inconclusive = Some(i);
                    continue;
                }
                if fired && failure.is_none() {
                    let js = serde_json::to_string(&concrete).unwrap();
                    ev.nontrivial_hashes.push(hash_str(&js));
                    if sample.is_none() && class == "fired_only_in_stale_attempt" {
                        sample = Some(serde_json::to_value(&concrete).unwrap());
                    }
                }
                if let Some(f) = failure {
                    if f.0 == F4_SIG && crate::driver::is_known("C04", F4_SIG) {
                        ev.known_hits.push((F4_SIG.to_string(), serde_json::to_value(&concrete).unwrap()));
                        continue;
                    }
                    first_failure = Some((f, concrete));
                    break 'outer;
                }
            }
        }
    }
    ev.sample = sample;
    if let Some((f, concrete)) = first_failure {
        ev.failure = Some(f);
        ev.replay_override = Some(serde_json::to_value(&concrete).unwrap());
    }
    ev
}

/// A fault-free grevm run on a recording database; returns the recorded keys.
pub fn run_grevm_recording(m: &Materialised, db: MemDb, txs: &[revm::context::TxEnv], g: &GrevmCfg, schedule: Option<&Schedule>) -> BTreeSet<RKey> {
    use grevm::{ParallelState, Scheduler};
    use std::sync::Arc;
    let ctl = crate::dsched::controller();
    let db = Arc::new(db);
    let state = ParallelState::new(db.clone(), true, false);
    let scheduler = Scheduler::new_with_runtime_config(m.cfg.clone(), m.block.clone(), Arc::new(txs.to_vec()), state, None, grevm_config(g));
    let sched_ptr = &scheduler as *const Scheduler<Arc<MemDb>> as usize;
    match schedule {
        Some(s) => {
            let cb: Box<dyn Fn() + Send> = Box::new(move || {
                let s = unsafe { &*(sched_ptr as *const Scheduler<Arc<MemDb>>) };
                s.verif_cancel();
            });
            ctl.begin_run(s, false, Some(cb));
        }
        None => ctl.begin_free_run(),
    }
    let _ = std::panic::catch_unwind(std::panic::AssertUnwindSafe(|| scheduler.execute()));
    let _ = ctl.end_run();
    drop(scheduler);
    db.recorded()
}

//! Entry points for the coverage-guided fuzz targets (/verif/fuzz). The input bytes are the random
//! stream of the same proptest strategies the checks use (proptest's PassThrough RNG), so the fuzzer
//! mutates structured scenarios without a second decoder. The semantic oracle runs inside the
//! target; a failure writes a replay file and panics (libFuzzer then saves the input as well).

use crate::blockdiff::{evaluate, Oracle};
use crate::driver::write_replay;
use crate::gen::{self, GenCfg};
use proptest::strategy::{Strategy, ValueTree};
use proptest::test_runner::{Config, RngAlgorithm, TestRng, TestRunner};

/// bytes -> case. proptest's PassThrough RNG cannot be used (it returns zeros once a region of the
/// buffer is exhausted and rand 0.9's uniform sampler rejects zeros forever), so the input is cut
/// into regions with component-level locality instead:
///   [0..32)   seed of the generated block / history / table (ChaCha-driven strategy)
///   [32..64)  seed of the schedule tail and holds
///   [64..]    the schedule's explicit prefix choices, verbatim
/// A mutation in one region leaves the other components unchanged, so coverage feedback can steer
/// the interleaving of a fixed block (bytes >= 64) or the block under a fixed schedule (bytes < 32).
fn seeded<S: Strategy>(strategy: &S, seed: &[u8]) -> Option<S::Value> {
    let mut s = [0u8; 32];
    for (i, b) in seed.iter().enumerate() {
        s[i % 32] ^= b.rotate_left((i / 32) as u32);
    }
    let rng = TestRng::from_seed(RngAlgorithm::ChaCha, &s);
    let mut runner = TestRunner::new_with_rng(Config { failure_persistence: None, ..Config::default() }, rng);
    strategy.new_tree(&mut runner).ok().map(|t| t.current())
}

fn schedule_from(data: &[u8], w_stale: u32) -> Option<crate::dsched::Schedule> {
    let seed = data.get(32..64.min(data.len())).unwrap_or(&[]);
    let mut s = seeded(&gen::schedule(w_stale), seed)?;
    s.prefix = data.get(64..).map(|p| p[..p.len().min(512)].to_vec()).unwrap_or_default();
    Some(s)
}

fn from_bytes<S: Strategy>(strategy: &S, data: &[u8]) -> Option<S::Value> {
    if data.len() < 8 {
        return None;
    }
    seeded(strategy, &data[..data.len().min(32)])
}

fn quiet_panics() {
    static ONCE: std::sync::Once = std::sync::Once::new();
    ONCE.call_once(|| {
        if std::env::var("VERIF_SHOW_PANICS").is_err() {
            let default = std::panic::take_hook();
            std::panic::set_hook(Box::new(move |info| {
                let msg = info.payload().downcast_ref::<String>().cloned().unwrap_or_default();
                if msg.starts_with("VHARNESS-VIOLATION") {
                    default(info);
                }
            }));
        }
    });
}

fn report(id: &str, case: serde_json::Value, clause: &str, detail: &str) -> ! {
    let path = write_replay(id, &case, clause, detail);
    println!("  {clause}: {detail}");
    println!("VIOLATION property={id} replay={path}");
    panic!("VHARNESS-VIOLATION property={id} replay={path}");
}

thread_local! {
    static PIPE: std::cell::RefCell<Option<proptest::strategy::BoxedStrategy<crate::scenario::Scenario>>> = const { std::cell::RefCell::new(None) };
}

pub fn pipeline_one(data: &[u8]) {
    quiet_panics();
    let sc = PIPE.with(|p| {
        let mut p = p.borrow_mut();
        if p.is_none() {
            let mut g = GenCfg::default();
            g.w_invalid_tx = 10;
            g.w_stale_tail = 10;
            g.chain_pm = 400;
            *p = Some(gen::scenario(&g));
        }
        from_bytes(p.as_ref().unwrap(), data)
    });
    let Some(mut sc) = sc else { return };
    if sc.schedule.is_some() {
        sc.schedule = schedule_from(data, 10);
    }
    let oracle = Oracle { result_equal: true, commit_trace: true, termination: true, exclude_ref_fatal: true, ..Default::default() };
    let (rep, _) = evaluate(&sc, &oracle, None, None);
    if let Some(f) = rep.failure {
        let id = if f.clause.starts_with("termination") { "C05" } else if f.clause == "commit-trace" { "C02" } else { "C01" };
        report(id, serde_json::to_value(&sc).unwrap(), &f.clause, &f.detail);
    }
}

pub fn pstate_one(data: &[u8]) {
    quiet_panics();
    let strat = crate::checks::c10_strategy("thorough");
    let Some(mut case) = from_bytes(&strat, data) else { return };
    if case.sc.schedule.is_some() {
        case.sc.schedule = schedule_from(data, 1);
    }
    let ev = crate::pstate::eval_c10(&case);
    if let Some((clause, detail)) = ev.failure {
        report("C10", serde_json::to_value(&case).unwrap(), &clause, &detail);
    }
}

pub fn txdep_one(data: &[u8]) {
    quiet_panics();
    let strat = crate::checks::c16_strategy();
    let Some(mut case) = from_bytes(&strat, data) else { return };
    if let Some(s) = schedule_from(data, 1) {
        case.schedule = s;
    }
    let ev = crate::component::eval_c16(&case);
    if let Some((clause, detail)) = ev.failure {
        report("C16", serde_json::to_value(&case).unwrap(), &clause, &detail);
    }
}

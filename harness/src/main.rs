use vharness::{checks, driver};

fn usage() -> ! {
    eprintln!("usage: vcheck check <ID> <quick|thorough> | worker <ID> <tier> <i> <n> <seed> <cases> | replay <path>");
    std::process::exit(2)
}

fn main() {
    // Keep panics of grevm threads out of the report stream; the harness catches them.
    let args: Vec<String> = std::env::args().collect();
    if args.len() < 2 {
        usage();
    }
    match args[1].as_str() {
        "check" => {
            if args.len() < 4 {
                usage();
            }
            let seed: u64 = std::env::var("VERIF_SEED").ok().and_then(|s| s.parse().ok()).unwrap_or(1);
            let Some(meta) = checks::meta(&args[2]) else {
                eprintln!("unknown property {}", args[2]);
                std::process::exit(2)
            };
            // seconds-long replay tier: saved witnesses of earlier findings and mutants
            let mut n_regress = 0;
            let dir = format!("{}/replays/regress", driver::VERIF_DIR);
            // VERIF_SKIP_REGRESS=1 (used when measuring what the campaign alone finds under a mutant)
            let skip_regress = std::env::var("VERIF_SKIP_REGRESS").map_or(false, |v| v == "1");
            if skip_regress {
            } else if let Ok(rd) = std::fs::read_dir(&dir) {
                let mut files: Vec<_> = rd.filter_map(|e| e.ok()).map(|e| e.path()).filter(|p| p.file_name().and_then(|n| n.to_str()).map_or(false, |n| n.starts_with(&format!("{}-", args[2])) && n.ends_with(".json"))).collect();
                files.sort();
                for f in files {
                    // hash-set iteration order inside grevm is not part of a replay: run each
                    // witness a few times (milliseconds each); any violating run is a violation
                    let mut code = 0;
                    for attempt in 0..8 {
                        if attempt > 0 {
                            // the replay prints one line per run; keep the log short
                        }
                        code = checks::replay(f.to_str().unwrap());
                        if code != 0 {
                            break;
                        }
                    }
                    if code == 1 {
                        std::process::exit(1);
                    }
                    if code == 0 {
                        n_regress += 1;
                    }
                }
            }
            let code = driver::run_parent(&meta, &args[3], seed, n_regress);
            std::process::exit(code);
        }
        "worker" => {
            if args.len() < 8 {
                usage();
            }
            if std::env::var("VERIF_SHOW_PANICS").is_err() {
                std::panic::set_hook(Box::new(|_| {}));
            }
            let wa = driver::WorkerArgs {
                id: args[2].clone(),
                tier: args[3].clone(),
                index: args[4].parse().unwrap(),
                total: args[5].parse().unwrap(),
                seed: args[6].parse().unwrap(),
                cases: args[7].parse().unwrap(),
                shrink_iters: 600,
            };
            let report = checks::run_worker(&wa);
            println!("REPORT {}", serde_json::to_string(&report).unwrap());
        }
        "pttest" => {
            use proptest::strategy::{Strategy, ValueTree};
            use proptest::test_runner::{Config, RngAlgorithm, TestRng, TestRunner};
            let buf: Vec<u8> = (0..4096u32).map(|i| (i.wrapping_mul(2654435761) >> 13) as u8).collect();
            let rng = TestRng::from_seed(RngAlgorithm::PassThrough, &buf);
            let mut runner = TestRunner::new_with_rng(Config::default(), rng);
            let s = (3u8..=6, proptest::collection::vec(0u8..10, 3..6));
            for _ in 0..3 {
                let v = s.new_tree(&mut runner).unwrap().current();
                println!("{v:?}");
            }
            let g = vharness::gen::GenCfg::default();
            let which = args.get(2).map(|s| s.as_str()).unwrap_or("");
            let t0 = std::time::Instant::now();
            match which {
                "eoa" => { let s = vharness::gen::eoa(vharness::gen::Dim { n_eoa: 3, n_con: 2, w_benef: 3, w_custom: 0 }, &g); println!("{:?}", s.new_tree(&mut runner).unwrap().current()); }
                "contract" => { let s = vharness::gen::contract(vharness::gen::Dim { n_eoa: 3, n_con: 2, w_benef: 3, w_custom: 0 }, &g); println!("{:?}", s.new_tree(&mut runner).unwrap().current()); }
                "tx" => { let s = vharness::gen::tx(vharness::gen::Dim { n_eoa: 3, n_con: 2, w_benef: 3, w_custom: 0 }, &g, 10); println!("{:?}", s.new_tree(&mut runner).unwrap().current()); }
                "sched" => { let s = vharness::gen::schedule(6); println!("{:?}", s.new_tree(&mut runner).unwrap().current()); }
                "scenario" => { let s = vharness::gen::scenario(&g); println!("{:?}", s.new_tree(&mut runner).unwrap().current().txs.len()); }
                _ => {}
            }
            println!("{which} took {:?}", t0.elapsed());
        }
        "flipdbg" => {
            use proptest::strategy::{Strategy, ValueTree};
            use proptest::test_runner::{Config, RngAlgorithm, TestRng, TestRunner};
            let n: usize = args.get(2).and_then(|s| s.parse().ok()).unwrap_or(5);
            let mut seed = [7u8; 32];
            seed[0] = args.get(3).and_then(|s| s.parse().ok()).unwrap_or(1);
            let mut runner = TestRunner::new_with_rng(Config::default(), TestRng::from_seed(RngAlgorithm::ChaCha, &seed));
            let mut g = vharness::gen::GenCfg::default();
            g.w_invalid_tx = 3;
            let s = vharness::gen::flipflop_scenario(&g);
            for _ in 0..n {
                let sc = s.new_tree(&mut runner).unwrap().current();
                let oracle = vharness::blockdiff::Oracle { result_equal: true, commit_trace: true, exclude_ref_fatal: true, ..Default::default() };
                let (rep, art) = vharness::blockdiff::evaluate(&sc, &oracle, None, None);
                let mut line = String::new();
                for l in &art.out.log {
                    match &l.ev {
                        vharness::dsched::Ev::AttemptEnd { txid, incarnation, kind, .. } => line += &format!("E{txid}.{incarnation}k{kind} "),
                        vharness::dsched::Ev::ValidationEnd { txid, conflict, .. } => line += &format!("V{txid}{} ", if *conflict { "x" } else { "ok" }),
                        vharness::dsched::Ev::Commit { txid, .. } => line += &format!("C{txid} "),
                        vharness::dsched::Ev::Abort { kind, txid } => line += &format!("ABORT{kind}@{txid} "),
                        _ => {}
                    }
                }
                let sels: Vec<_> = sc.txs.iter().map(|t| (t.sender, t.sel)).collect();
                println!("workers={} holds={} txs={:?} fail={:?}\n   {}", sc.grevm.concurrency, sc.schedule.as_ref().map_or(0, |s| s.holds.len()), sels, rep.failure.map(|f| f.clause), line);
            }
        }
        "fuzzone" => {
            let data = std::fs::read(&args[3]).expect("read input");
            let t0 = std::time::Instant::now();
            match args[2].as_str() {
                "pipeline" => vharness::fuzzing::pipeline_one(&data),
                "pstate" => vharness::fuzzing::pstate_one(&data),
                _ => vharness::fuzzing::txdep_one(&data),
            }
            println!("done in {:?}", t0.elapsed());
        }
        "debug" => {
            checks::debug(&args[2]);
        }
        "replay" => {
            if args.len() < 3 {
                usage();
            }
            std::process::exit(checks::replay(&args[2]));
        }
        _ => usage(),
    }
}

use vharness::{checks, driver};

fn usage() -> ! {
    eprintln!("usage: vcheck check <ID> <quick|thorough> | worker <ID> <tier> <i> <n> <seed> <cases> | replay <path>");
    std::process::exit(2)
}

fn main() {
    // Keep panics of grevm threads out of the report stream; the harness catches them.
    let args: Vec<String> = std::env::args().collect();
    if args.len() < 2 {
        usage();
    }
    match args[1].as_str() {
        "check" => {
            if args.len() < 4 {
                usage();
            }
            let seed: u64 = std::env::var("VERIF_SEED").ok().and_then(|s| s.parse().ok()).unwrap_or(1);
            let Some(meta) = checks::meta(&args[2]) else {
                eprintln!("unknown property {}", args[2]);
                std::process::exit(2)
            };
            // seconds-long replay tier: saved witnesses of earlier findings and mutants
            let mut n_regress = 0;
            let dir = format!("{}/replays/regress", driver::VERIF_DIR);
            if let Ok(rd) = std::fs::read_dir(&dir) {
                let mut files: Vec<_> = rd.filter_map(|e| e.ok()).map(|e| e.path()).filter(|p| p.file_name().and_then(|n| n.to_str()).map_or(false, |n| n.starts_with(&format!("{}-", args[2])) && n.ends_with(".json"))).collect();
                files.sort();
                for f in files {
                    let code = checks::replay(f.to_str().unwrap());
                    if code == 1 {
                        std::process::exit(1);
                    }
                    if code == 0 {
                        n_regress += 1;
                    }
                }
            }
            let code = driver::run_parent(&meta, &args[3], seed, n_regress);
            std::process::exit(code);
        }
        "worker" => {
            if args.len() < 8 {
                usage();
            }
            if std::env::var("VERIF_SHOW_PANICS").is_err() {
                std::panic::set_hook(Box::new(|_| {}));
            }
            let wa = driver::WorkerArgs {
                id: args[2].clone(),
                tier: args[3].clone(),
                index: args[4].parse().unwrap(),
                total: args[5].parse().unwrap(),
                seed: args[6].parse().unwrap(),
                cases: args[7].parse().unwrap(),
                shrink_iters: 600,
            };
            let report = checks::run_worker(&wa);
            println!("REPORT {}", serde_json::to_string(&report).unwrap());
        }
        "debug" => {
            checks::debug(&args[2]);
        }
        "replay" => {
            if args.len() < 3 {
                usage();
            }
            std::process::exit(checks::replay(&args[2]));
        }
        _ => usage(),
    }
}

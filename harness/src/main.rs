use vharness::{compare::*, dsched::*, reference::*, runner::*, scenario::*, world::*};

fn chain_scenario(conc: u8, schedule: Option<Schedule>) -> Scenario {
    use Expr::*;
    let con = ContractDef {
        balance: Bal::Zero,
        storage: vec![],
        code: Code::Routines(vec![
            vec![Stmt::SStore(0, Const(1))],
            vec![Stmt::If(SLoad(0), vec![Stmt::SStore(1, Const(1))], vec![])],
            vec![Stmt::SStore(2, SLoad(1))],
        ]),
    };
    let sels = [0u8, 1, 2, 1, 2];
    Scenario {
        spec: SPEC_SHANGHAI,
        disable_nonce_check: false,
        basefee: 0,
        world: World {
            eoas: (0..5).map(|_| EoaDef { balance: Bal::Ether(1), nonce: 0, delegate: None }).collect(),
            contracts: vec![con],
            beneficiary: AddrRef::Absent(0xBE),
        },
        txs: sels.iter().enumerate().map(|(i, s)| TxDef { sender: i as u8, sel: *s, ..Default::default() }).collect(),
        grevm: GrevmCfg { concurrency: conc, ..Default::default() },
        faults: vec![],
        schedule,
        db_yields: true,
    }
}

fn main() {
    let args: Vec<String> = std::env::args().collect();
    let n: u64 = args.get(1).map(|s| s.parse().unwrap()).unwrap_or(1000);
    let conc: u8 = args.get(2).map(|s| s.parse().unwrap()).unwrap_or(2);
    let sc = chain_scenario(conc, None);
    let m = materialise(&sc);
    let txs = materialise_txs(&sc, &m);
    let rf = run_reference(&m, &m.db, &txs, true, true);
    println!("reference: {} outcomes err={:?}", rf.outcomes.len(), rf.error);
    let t0 = std::time::Instant::now();
    let (mut bad, mut reexec, mut steps, mut sw, mut notcompleted) = (0, 0, 0, 0, 0);
    for seed in 1..=n {
        let tail = match seed % 4 { 0 => Tail::Uniform { seed }, 1 => Tail::Sticky { seed, stay: 180 }, 2 => Tail::Pct { seed, depth: 3, span: 400 }, _ => Tail::Starve { seed, victim: (seed % 5) as u8, from: 20, len: 200 } };
        let sched = Schedule { prefix: vec![], tail, holds: vec![] };
        let out = run_grevm(&m, m.db.clone(), &txs, &sc.grevm, Some(&sched), None, true);
        let cls = classify(&out.log);
        if cls.reexecutions > 0 { reexec += 1; }
        steps += out.stats.steps; sw += out.stats.switches;
        if out.verdict != Verdict::Completed { notcompleted += 1; if notcompleted < 4 { println!("seed {seed}: verdict {:?}", out.verdict); } }
        let r = out.result.clone().map_err(|e| format!("{e:?}"))
            .and_then(|_| compare_outcomes(&rf.outcomes, &out.outcomes))
            .and_then(|_| compare_bundles(&rf.bundle, &out.bundle))
            .and_then(|_| compare_readback(rf.readback.as_ref().unwrap(), out.readback.as_ref().unwrap()));
        if let Err(e) = r { bad += 1; if bad < 4 { println!("seed {seed}: MISMATCH {e}"); } }
    }
    println!("runs={n} conc={conc} time={:?} per_run={:?} steps/run={} switches/run={} reexec_runs={} notcompleted={} bad={}", t0.elapsed(), t0.elapsed() / n as u32, steps / n, sw / n, reexec, notcompleted, bad);
}

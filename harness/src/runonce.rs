//! C14: a scheduler executes its block at most once — histories of entry-point calls from 1-4
//! caller threads on one scheduler, under the deterministic controller or free-running.

use crate::compare::*;
use crate::driver::CaseEval;
use crate::dsched::{controller, Ev, Schedule, Verdict, ROLE_HARNESS};
use crate::reference::*;
use crate::runner::*;
use crate::scenario::*;
use crate::world::*;
use grevm::{ParallelState, ParallelTakeBundle, Scheduler};
use revm::database::states::bundle_state::BundleRetention;
use serde::{Deserialize, Serialize};
use std::sync::{Arc, Barrier, Mutex};

#[derive(Clone, Debug, Serialize, Deserialize)]
pub struct C14Case {
    pub sc: Scenario,
    /// per caller thread: list of entry kinds (0 execute, 1 parallel_execute(Some(k)), 2 fallback_sequential)
    pub callers: Vec<Vec<u8>>,
}

const ONLY_ONCE: &str = "can execute only once";

pub fn eval_c14(case: &C14Case) -> CaseEval {
    let mut ev = CaseEval::default();
    let sc = &case.sc;
    let m = materialise(sc);
    let txs = materialise_txs(sc, &m);
    let ctl = controller();
    let db = Arc::new(m.db.clone());

    // fresh scheduler: nothing executed
    {
        let state = ParallelState::new(db.clone(), true, false);
        let s = Scheduler::new_with_runtime_config(m.cfg.clone(), m.block.clone(), Arc::new(txs.clone()), state, None, grevm_config(&sc.grevm));
        let (o, mut st) = s.take_result_and_state();
        let b = st.parallel_take_bundle(BundleRetention::Reverts);
        if !o.is_empty() || !b.state.is_empty() || !b.contracts.is_empty() || b.reverts.iter().any(|r| !r.is_empty()) {
            ev.failure = Some(("fresh-scheduler".into(), "take_result_and_state() before any execution returned outcomes or a non-empty bundle".into()));
            return ev;
        }
    }

    let state = ParallelState::new(db.clone(), true, false);
    let scheduler = Scheduler::new_with_runtime_config(m.cfg.clone(), m.block.clone(), Arc::new(txs.clone()), state, None, grevm_config(&sc.grevm));
    let results: Mutex<Vec<(usize, usize, u8, Result<(), (usize, String)>)>> = Mutex::new(Vec::new());
    let n = case.callers.len();
    let det = sc.schedule.is_some();
    let sched_ptr = &scheduler as *const Scheduler<Arc<MemDb>> as usize;
    match &sc.schedule {
        Some(s) => {
            let cb: Box<dyn Fn() + Send> = Box::new(move || {
                let s = unsafe { &*(sched_ptr as *const Scheduler<Arc<MemDb>>) };
                s.verif_cancel();
            });
            ctl.begin_run(s, false, Some(cb));
            ctl.expect_threads(n);
        }
        None => ctl.begin_free_run(),
    }
    let barrier = Barrier::new(n);
    let k = sc.grevm.concurrency.max(1) as usize;
    let panicked = std::panic::catch_unwind(std::panic::AssertUnwindSafe(|| {
        std::thread::scope(|scope| {
            let mut hs = Vec::new();
            for (ci, calls) in case.callers.iter().enumerate() {
                let scheduler = &scheduler;
                let results = &results;
                let barrier = &barrier;
                hs.push(scope.spawn(move || {
                    if det {
                        ctl.register_thread(ROLE_HARNESS + ci as u32);
                    } else {
                        barrier.wait();
                    }
                    for (j, kind) in calls.iter().enumerate() {
                        ctl.note(1, ci, j);
                        let r = std::panic::catch_unwind(std::panic::AssertUnwindSafe(|| match kind % 3 {
                            0 => scheduler.execute(),
                            1 => scheduler.parallel_execute(Some(k)),
                            _ => scheduler.fallback_sequential(),
                        }));
                        ctl.note(2, ci, j);
                        let r = match r {
                            Ok(r) => r.map_err(|e| (e.txid, err_sig(&e.error))),
                            Err(p) => {
                                let msg = p.downcast_ref::<String>().cloned().or_else(|| p.downcast_ref::<&str>().map(|s| s.to_string())).unwrap_or_default();
                                Err((usize::MAX, format!("panic:{msg}")))
                            }
                        };
                        results.lock().unwrap().push((ci, j, *kind, r));
                    }
                    if det {
                        ctl.unregister_thread();
                    }
                }));
            }
            if det {
                ctl.enter_external();
            }
            for h in hs {
                let _ = h.join();
            }
            if det {
                ctl.leave_external();
            }
        });
    }));
    let out = ctl.end_run();
    if panicked.is_err() {
        ev.failure = Some(("panic".into(), "a caller thread or the scope panicked".into()));
        return ev;
    }
    match &out.verdict {
        Verdict::Inconclusive { detail } => {
            ev.inconclusive = Some(detail.clone());
            return ev;
        }
        Verdict::Deadlock { detail } => {
            ev.failure = Some(("termination/deadlock".into(), detail.clone()));
            return ev;
        }
        Verdict::TimerDependent { fired } => {
            ev.failure = Some(("termination/timer-dependent-progress".into(), format!("{fired} timer firing(s)")));
            return ev;
        }
        Verdict::Completed => {}
    }
    let results = results.into_inner().unwrap();
    let total_calls: usize = case.callers.iter().map(|c| c.len()).sum();
    if results.len() != total_calls {
        ev.failure = Some(("calls".into(), format!("{} of {} calls returned", results.len(), total_calls)));
        return ev;
    }
    let winners: Vec<_> = results.iter().filter(|r| !matches!(&r.3, Err((_, e)) if e.contains(ONLY_ONCE))).collect();
    let (outcomes, mut st) = scheduler.take_result_and_state();
    let bundle = st.parallel_take_bundle(BundleRetention::Reverts);
    if total_calls == 0 {
        if !outcomes.is_empty() {
            ev.failure = Some(("fresh-scheduler".into(), "outcomes without any call".into()));
        }
        return ev;
    }
    if winners.len() != 1 {
        ev.failure = Some(("exactly-one-runs".into(), format!("{} calls ran the block (expected exactly 1): {:?}", winners.len(), results)));
        return ev;
    }
    let w = winners[0];
    if let Err((_, e)) = &w.3 {
        if e.starts_with("panic:") {
            // the executing call unwound with a panic (injected through the database): the
            // block's outcome is whatever was committed before; only the one-shot rule is checked
            if e != &format!("panic:{}", PANIC_PAYLOAD) {
                ev.failure = Some(("panic".into(), format!("unexpected panic: {e}")));
                return ev;
            }
            *ev.hist.entry("runs_with_panicking_first_execution".into()).or_insert(0) += 1;
            ev.nontrivial = total_calls >= 2 && !txs.is_empty();
            return ev;
        }
    }
    // the winner's path decides whether the reference preloads the beneficiary
    let g = GrevmCfg { entry: match w.2 % 3 { 0 => Entry::Execute, 1 => Entry::ParallelExecute(k as u8), _ => Entry::FallbackSequential }, ..sc.grevm.clone() };
    let parallel = takes_parallel_path(&g, txs.len());
    let mut rdb = m.db.clone();
    rdb.yields = false;
    let rf = run_reference(&m, &rdb, &txs, parallel, false);
    let r = match (&rf.error, &w.3) {
        (None, Ok(())) => Ok(()),
        (Some((k, s)), Err((gk, gs))) if k == gk && s == gs => Ok(()),
        (a, b) => Err(format!("the executing call returned {b:?} but the in-order reference gives {a:?}")),
    }
    .and_then(|_| compare_outcomes(&rf.outcomes, &outcomes))
    .and_then(|_| compare_bundles(&rf.bundle, &bundle));
    if let Err(e) = r {
        ev.failure = Some(("single-application".into(), e));
        return ev;
    }
    // overlap: a losing call started while the winning call was in progress
    let mut win_span = (0u64, u64::MAX);
    let mut spans: Vec<(usize, usize, u64)> = Vec::new();
    for l in &out.log {
        if let Ev::Note { code, a, b } = &l.ev {
            if *a == w.0 && *b == w.1 {
                if *code == 1 {
                    win_span.0 = l.step;
                } else {
                    win_span.1 = l.step;
                }
            } else if *code == 1 {
                spans.push((*a, *b, l.step));
            }
        }
    }
    let overlapped = det && spans.iter().any(|(_, _, s)| *s > win_span.0 && *s < win_span.1);
    *ev.hist.entry("callers".into()).or_insert(0) += n as u64;
    *ev.hist.entry("calls".into()).or_insert(0) += total_calls as u64;
    *ev.hist.entry("runs_with_overlapping_loser".into()).or_insert(0) += overlapped as u64;
    *ev.hist.entry("runs_winner_parallel_path".into()).or_insert(0) += parallel as u64;
    *ev.hist.entry("runs_free_running".into()).or_insert(0) += (!det) as u64;
    *ev.hist.entry("runs_empty_block".into()).or_insert(0) += txs.is_empty() as u64;
    ev.nontrivial = !txs.is_empty() && total_calls >= 2 && (overlapped || (!det && n >= 2));
    ev
}

pub fn default_sched() -> Schedule {
    Schedule::default()
}

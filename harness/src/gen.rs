//! proptest strategies producing `Scenario`s (DESIGN.md 3.3). Constructive: nothing is filtered.

use crate::dsched::{Hold, Schedule, Tail, Until};
use crate::scenario::*;
use grevm::verif::{pt, role};
use proptest::prelude::*;

/// Knobs a check uses to shape the distribution ("templates").
#[derive(Clone, Debug)]
pub struct GenCfg {
    pub min_txs: usize,
    pub max_txs: usize,
    pub max_workers: u8,
    /// per-mille weights
    pub w_invalid_tx: u32,
    pub w_create_tx: u32,
    pub w_selfdestruct: u32,
    pub w_create_stmt: u32,
    pub w_benef_touch: u32,
    pub w_7702: u32,
    pub w_value: u32,
    /// specs to draw from (indices into SPECS) with weights
    pub specs: Vec<(u32, u8)>,
    /// beneficiary roles: 0 absent, 1 eoa (possibly a sender), 2 contract, 3 fixed present eoa-like
    pub benef_roles: Vec<(u32, u8)>,
    pub near_max_benef: bool,
    pub allow_free_running: bool,
    pub faults: bool,
    pub panics: bool,
    pub disable_nonce_check_pm: u32,
    pub few_senders: bool,
    pub basefees: Vec<u64>,
    pub policies: bool,
    /// per-mille of scenarios using the conflict-chain template (one hot contract, data-dependent write sets)
    pub chain_pm: u32,
    /// weight of holds at narrow-window points
    pub targeted_holds: bool,
    /// weight of the adaptive stale-validation tail among schedule tails (others sum to 22)
    pub w_stale_tail: u32,
    /// per-mille of transactions that call an EOA (interesting when it carries a delegation)
    pub w_call_eoa: u32,
    /// weight of the custom precompile among address references / transaction targets (0 = never)
    pub w_custom: u32,
    /// per-mille of scenarios with one persistent database fault on a key the facade may read
    pub facade_fault_pm: u32,
    /// conflict-chain routines also read the fee recipient / conditionally destroy and create
    pub chain_benef: bool,
    pub chain_destroy: bool,
    pub chain_fund: bool,
    /// per-mille of scenarios with a funding pattern: an EOA with zero balance whose transactions
    /// are valid only because an earlier transaction of the block funds it
    pub fund_pm: u32,
}

impl Default for GenCfg {
    fn default() -> Self {
        GenCfg {
            min_txs: 2,
            max_txs: 8,
            max_workers: 4,
            w_invalid_tx: 30,
            w_create_tx: 60,
            w_selfdestruct: 40,
            w_create_stmt: 60,
            w_benef_touch: 60,
            w_7702: 80,
            w_value: 150,
            specs: vec![(1, 0), (1, 1), (1, 2), (1, 3), (2, 4), (2, 5), (2, 6), (2, 7), (3, 8), (2, 9), (6, 10), (5, 11), (6, 12), (3, 13)],
            benef_roles: vec![(6, 0), (2, 1), (1, 2), (2, 3)],
            near_max_benef: false,
            allow_free_running: false,
            faults: false,
            panics: false,
            disable_nonce_check_pm: 100,
            few_senders: false,
            basefees: vec![0, 0, 7, 1000],
            policies: false,
            chain_pm: 350,
            targeted_holds: true,
            w_stale_tail: 6,
            w_call_eoa: 30,
            w_custom: 0,
            facade_fault_pm: 0,
            chain_benef: false,
            chain_destroy: false,
            chain_fund: false,
            fund_pm: 60,
        }
    }
}

#[derive(Clone, Copy, Debug)]
pub struct Dim {
    pub n_eoa: u8,
    pub n_con: u8,
    /// weight of the beneficiary among address references (others sum to ~84)
    pub w_benef: u32,
    pub w_custom: u32,
}

pub fn addr_ref(d: Dim) -> BoxedStrategy<AddrRef> {
    let ne = d.n_eoa.max(1);
    let nc = d.n_con.max(1);
    let mut v: Vec<(u32, BoxedStrategy<AddrRef>)> = vec![
        (40, (0..nc).prop_map(AddrRef::Con).boxed()),
        (12, (0..ne).prop_map(AddrRef::Eoa).boxed()),
        (8, (0u8..3).prop_map(AddrRef::Absent).boxed()),
        (8, ((0..nc), (1u8..3)).prop_map(|(creator, nonce)| AddrRef::Created { creator, nonce }).boxed()),
        (8, ((0..nc), (0u8..2), (0u8..INIT_KINDS)).prop_map(|(creator, salt, init)| AddrRef::Created2 { creator, salt, init }).boxed()),
        (5, ((0..ne), (0u8..2)).prop_map(|(sender, k)| AddrRef::TxCreated { sender, k }).boxed()),
        (d.w_benef.max(1), Just(AddrRef::Benef).boxed()),
        (3, (1u8..=9).prop_map(AddrRef::Precompile).boxed()),
    ];
    if d.w_custom > 0 {
        v.push((d.w_custom, Just(AddrRef::Custom(0)).boxed()));
    }
    proptest::strategy::Union::new_weighted(v).boxed()
}

pub fn expr(d: Dim, depth: u32) -> BoxedStrategy<Expr> {
    let leaf = prop_oneof![
        20 => (0u64..4).prop_map(Expr::Const),
        4 => any::<u64>().prop_map(Expr::Const),
        30 => (0u8..6).prop_map(Expr::SLoad),
        8 => addr_ref(d).prop_map(Expr::Balance),
        3 => Just(Expr::SelfBalance),
        6 => addr_ref(d).prop_map(Expr::ExtCodeSize),
        4 => addr_ref(d).prop_map(Expr::ExtCodeHash),
        3 => addr_ref(d).prop_map(Expr::ExtCodeCopyWord),
        6 => (0u8..1).prop_map(Expr::CallDataWord),
        2 => Just(Expr::Caller),
        2 => Just(Expr::Coinbase),
        1 => (0u8..8).prop_map(Expr::BlockHash),
    ];
    if depth == 0 {
        leaf.boxed()
    } else {
        prop_oneof![
            6 => leaf,
            2 => (expr(d, depth - 1), expr(d, depth - 1)).prop_map(|(a, b)| Expr::Add(Box::new(a), Box::new(b))),
            2 => expr(d, depth - 1).prop_map(|a| Expr::IsZero(Box::new(a))),
        ]
        .boxed()
    }
}

pub fn call_kind() -> impl Strategy<Value = CallKind> {
    prop_oneof![
        6 => Just(CallKind::Call),
        2 => Just(CallKind::DelegateCall),
        2 => Just(CallKind::StaticCall),
        1 => Just(CallKind::CallCode),
    ]
}

pub fn stmt(d: Dim, g: &GenCfg, depth: u32) -> BoxedStrategy<Stmt> {
    let g2 = g.clone();
    let base = prop_oneof![
        40 => ((0u8..6), expr(d, 1)).prop_map(|(s, e)| Stmt::SStore(s, e)),
        14 => (call_kind(), addr_ref(d), prop_oneof![4 => Just(0u64), 1 => 1u64..5], prop_oneof![3 => 0u8..4, 1 => 0u8..40], proptest::option::weighted(0.3, 0u64..9), proptest::bool::weighted(0.1), proptest::option::weighted(0.6, 0u8..6))
            .prop_map(|(kind, target, value, sel, arg, small_gas, store)| Stmt::Call { kind, target, value, sel, arg, small_gas, store }),
        (g.w_create_stmt / 10).max(1) => (any::<bool>(), 0u8..2, 0u8..INIT_KINDS, prop_oneof![4 => Just(0u64), 1 => 1u64..3], proptest::option::weighted(0.5, 0u8..6))
            .prop_map(|(create2, salt, init, value, store)| Stmt::Create { create2, salt, init, value, store }),
        (g.w_selfdestruct / 10).max(1) => addr_ref(d).prop_map(Stmt::SelfDestruct),
        3 => expr(d, 0).prop_map(Stmt::Log),
        2 => Just(Stmt::Revert),
        2 => Just(Stmt::Stop),
        5 => expr(d, 1).prop_map(Stmt::Return),
        1 => Just(Stmt::Invalid),
    ];
    if depth == 0 {
        base.boxed()
    } else {
        prop_oneof![
            7 => base,
            3 => (expr(d, 1), proptest::collection::vec(stmt(d, &g2, depth - 1), 0..3), proptest::collection::vec(stmt(d, &g2, depth - 1), 0..2))
                .prop_map(|(c, t, e)| Stmt::If(c, t, e)),
        ]
        .boxed()
    }
}

/// Conflict-chain routines over a few slots: unconditional writes, writes guarded by a slot
/// another routine writes (the write set changes between incarnations), and copies.
pub fn chain_routine(benef: bool, destroy: bool, fund: bool) -> BoxedStrategy<Vec<Stmt>> {
    let slot = || 0u8..4;
    let val = || prop_oneof![(1u64..4).prop_map(Expr::Const), slot().prop_map(Expr::SLoad), Just(Expr::Const(0))];
    let mut alts: Vec<(u32, BoxedStrategy<Stmt>)> = Vec::new();
    alts.push((3, ((slot(), val()).prop_map(|(s, v)| Stmt::SStore(s, v))).boxed()));
    alts.push((4, ((slot(), slot(), val()).prop_map(|(a, b, v)| Stmt::If(Expr::SLoad(a), vec![Stmt::SStore(b, v)], vec![]))).boxed()));
    alts.push((2, ((slot(), slot(), slot(), val(), val()).prop_map(|(a, b, c, v, w)| Stmt::If(Expr::IsZero(Box::new(Expr::SLoad(a))), vec![Stmt::SStore(b, v)], vec![Stmt::SStore(c, w)]))).boxed()));
    alts.push((2, ((slot(), slot()).prop_map(|(a, b)| Stmt::SStore(b, Expr::Add(Box::new(Expr::SLoad(a)), Box::new(Expr::Const(1)))))).boxed()));
    alts.push((1, ((slot()).prop_map(|a| Stmt::Return(Expr::SLoad(a)))).boxed()));
    alts.push(((if benef { 4 } else { 0 }), ((slot(), prop_oneof![Just(Expr::Balance(AddrRef::Benef)), Just(Expr::ExtCodeSize(AddrRef::Benef)), Just(Expr::ExtCodeHash(AddrRef::Benef))]).prop_map(|(a, e)| Stmt::SStore(a, e))).boxed()));
    alts.push(((if benef { 1 } else { 0 }), ((0u64..3).prop_map(|v| Stmt::Call { kind: CallKind::Call, target: AddrRef::Benef, value: v, sel: 0, arg: None, small_gas: false, store: Some(3) })).boxed()));
    alts.push(((if fund { 5 } else { 0 }), ((slot(), any::<bool>(), 0u8..3).prop_map(|(a, neg, k)| {
            let c = if neg { Expr::IsZero(Box::new(Expr::SLoad(a))) } else { Expr::SLoad(a) };
            Stmt::If(c, vec![Stmt::Call { kind: CallKind::Call, target: AddrRef::Eoa(k), value: 1_000_000_000_000_000_000, sel: 0, arg: None, small_gas: false, store: None }], vec![])
        })).boxed()));
    alts.push(((if destroy { 1 } else { 0 }), ((slot(), any::<bool>(), prop_oneof![Just(AddrRef::Absent(0)), Just(AddrRef::Eoa(0)), Just(AddrRef::Benef)]).prop_map(|(a, neg, to)| {
            let c = if neg { Expr::IsZero(Box::new(Expr::SLoad(a))) } else { Expr::SLoad(a) };
            Stmt::If(c, vec![Stmt::SelfDestruct(to)], vec![])
        })).boxed()));
    // the victim contract Con(1) (installed by the template): sel 1 self-destructs it, sel 2 writes
    // its slot 0, sel 0 returns SLOAD(0)+SLOAD(1); whether it is destroyed depends on a guard slot
    alts.push(((if destroy { 4 } else { 0 }), ((slot(), any::<bool>(), any::<bool>()).prop_map(|(a, neg, in_reverting_frame)| {
            let c = if neg { Expr::IsZero(Box::new(Expr::SLoad(a))) } else { Expr::SLoad(a) };
            Stmt::If(c, vec![Stmt::Call { kind: CallKind::Call, target: AddrRef::Con(1), value: 0, sel: if in_reverting_frame { 3 } else { 1 }, arg: None, small_gas: false, store: None }], vec![])
        })).boxed()));
    alts.push(((if destroy { 4 } else { 0 }), ((slot(), 0u8..3).prop_map(|(st, which)| {
            Stmt::Call { kind: CallKind::Call, target: AddrRef::Con(1), value: 0, sel: if which == 2 { 2 } else { 0 }, arg: Some(9), small_gas: false, store: Some(st) }
        })).boxed()));
    alts.push(((if destroy { 3 } else { 0 }), ((slot(), any::<bool>(), any::<bool>(), 0u8..2, 0u8..INIT_KINDS, proptest::option::weighted(0.5, 0u8..4)).prop_map(|(a, neg, create2, salt, init, store)| {
            let c = if neg { Expr::IsZero(Box::new(Expr::SLoad(a))) } else { Expr::SLoad(a) };
            Stmt::If(c, vec![Stmt::Create { create2, salt, init, value: 0, store }], vec![])
        })).boxed()));
    alts.push(((if destroy { 2 } else { 0 }), ((prop_oneof![(1u8..3).prop_map(|n| AddrRef::Created { creator: 0, nonce: n }), ((0u8..2), (0u8..INIT_KINDS)).prop_map(|(salt, init)| AddrRef::Created2 { creator: 0, salt, init }), Just(AddrRef::Con(1))], 0u8..4, slot())
            .prop_map(|(target, sel, st)| Stmt::Call { kind: CallKind::Call, target, value: 0, sel, arg: Some(5), small_gas: false, store: Some(st) })).boxed()));
    alts.retain(|(w, _)| *w > 0);
    let one = proptest::strategy::Union::new_weighted(alts);
    proptest::collection::vec(one, 1..3).boxed()
}

pub fn chain_contract(benef: bool, destroy: bool, fund: bool) -> BoxedStrategy<ContractDef> {
    (proptest::collection::vec(chain_routine(benef, destroy, fund), 2..5), proptest::collection::vec(((0u8..4), (0u64..3)), 0..3))
        .prop_map(move |(r, storage)| ContractDef { balance: if fund { Bal::Ether(50) } else { Bal::Zero }, storage, code: Code::Routines(r) })
        .boxed()
}

pub fn contract(d: Dim, g: &GenCfg) -> BoxedStrategy<ContractDef> {
    let routines = proptest::collection::vec(proptest::collection::vec(stmt(d, g, 2), 0..4), 1..4);
    (
        prop_oneof![3 => Just(Bal::Zero), 2 => (1u64..1000).prop_map(Bal::Wei), 1 => Just(Bal::Ether(1))],
        proptest::collection::vec(((0u8..6), (0u64..4)), 0..4),
        routines,
    )
        .prop_map(|(balance, storage, r)| ContractDef { balance, storage, code: Code::Routines(r) })
        .boxed()
}

pub fn eoa(d: Dim, g: &GenCfg) -> BoxedStrategy<EoaDef> {
    let w7702 = g.w_7702 as f64 / 1000.0;
    let inv = g.w_invalid_tx;
    (
        prop_oneof![
            (1000 - inv) => prop_oneof![6 => Just(Bal::Ether(10)), 1 => Just(Bal::Ether(1))],
            inv / 3 + 1 => Just(Bal::Zero),
            inv / 3 + 1 => (1u64..100_000).prop_map(Bal::Wei),
        ],
        prop_oneof![(1000 - inv) => prop_oneof![2 => Just(0u64), 1 => 1u64..50], inv / 3 + 1 => Just(u64::MAX - 1), inv / 3 + 1 => Just(u64::MAX)],
        proptest::option::weighted(w7702, prop_oneof![(0..d.n_con.max(1)).prop_map(AddrRef::Con), (0u8..2).prop_map(AddrRef::Absent)]),
    )
        .prop_map(|(balance, nonce, delegate)| EoaDef { balance, nonce, delegate })
        .boxed()
}

pub fn tx(d: Dim, g: &GenCfg, spec: u8) -> BoxedStrategy<TxDef> {
    let inv = g.w_invalid_tx;
    let few = g.few_senders;
    let ne = if few { d.n_eoa.min(2).max(1) } else { d.n_eoa.max(1) };
    let to = prop_oneof![
        60 => (0..d.n_con.max(1)).prop_map(|i| TxTo::Call(AddrRef::Con(i))),
        15 => addr_ref(d).prop_map(TxTo::Call),
        (g.w_call_eoa / 10).max(1) => (0..d.n_eoa.max(1)).prop_map(|i| TxTo::Call(AddrRef::Eoa(i))),
        g.w_custom.max(1) => if g.w_custom > 0 { Just(TxTo::Call(AddrRef::Custom(0))).boxed() } else { Just(TxTo::Call(AddrRef::Con(0))).boxed() },
        (g.w_create_tx / 10).max(1) => (0u8..INIT_KINDS).prop_map(TxTo::Create),
    ];
    let nonce = prop_oneof![
        (1000 - inv) => Just(NoncePolicy::Correct),
        inv / 3 + 1 => (1u8..3).prop_map(NoncePolicy::Plus),
        inv / 3 + 1 => (1u8..3).prop_map(NoncePolicy::Minus),
        inv / 6 + 1 => Just(NoncePolicy::Max),
    ];
    let value = prop_oneof![
        (1000 - g.w_value - inv / 2) => Just(ValueDef::Zero),
        g.w_value => (1u64..1000).prop_map(ValueDef::Wei),
        inv / 4 + 1 => Just(ValueDef::AllSpendable),
        inv / 4 + 1 => Just(ValueDef::TooMuch),
    ];
    let gas = prop_oneof![
        (1000 - inv) => prop_oneof![Just(GasDef::Limit(400_000)), Just(GasDef::Limit(120_000)), Just(GasDef::Limit(60_000))],
        inv / 4 + 1 => Just(GasDef::Exact21000),
        inv / 4 + 1 => Just(GasDef::BelowIntrinsic),
        inv / 8 + 1 => Just(GasDef::AboveBlock),
    ];
    let price = prop_oneof![
        (1000 - inv / 2) => prop_oneof![Just(0i32), Just(1), Just(1), Just(50)],
        inv / 2 + 1 => Just(-1i32),
    ];
    let london = spec >= SPEC_LONDON;
    let prague = spec >= SPEC_PRAGUE;
    let tx_type = if prague {
        prop_oneof![3 => Just(0u8), 1 => Just(1u8), 3 => Just(2u8), (g.w_7702 / 20).max(1) => Just(4u8)].boxed()
    } else if london {
        prop_oneof![(1000 - inv / 4) => prop_oneof![3 => Just(0u8), 1 => Just(1u8), 3 => Just(2u8)], inv / 4 + 1 => Just(4u8)].boxed()
    } else if spec >= 7 {
        prop_oneof![(1000 - inv / 4) => prop_oneof![3 => Just(0u8), 1 => Just(1u8)], inv / 4 + 1 => Just(2u8)].boxed()
    } else {
        prop_oneof![(1000 - inv / 4) => Just(0u8), inv / 4 + 1 => Just(1u8)].boxed()
    };
    let chain = prop_oneof![(1000 - inv / 4) => prop_oneof![4 => Just(1u8), 1 => Just(0u8)], inv / 4 + 1 => Just(2u8)];
    let auth = (
        proptest::option::weighted(0.9, 0..d.n_eoa.max(1)),
        proptest::option::weighted(0.8, prop_oneof![(0..d.n_con.max(1)).prop_map(AddrRef::Con), (0u8..2).prop_map(AddrRef::Absent)]),
        prop_oneof![5 => Just(AuthNonce::Correct), 1 => Just(AuthNonce::Wrong)],
        prop_oneof![3 => Just(0u8), 3 => Just(1u8), 1 => Just(2u8)],
    )
        .prop_map(|(authority, target, nonce, chain)| AuthDef { authority, target, nonce, chain });
    let auths = proptest::collection::vec(auth, 0..3);
    let access = proptest::collection::vec((addr_ref(d), proptest::collection::vec(0u8..6, 0..3)), 0..2);
    (
        (0..ne, nonce, to, prop_oneof![3 => 0u8..4, 1 => 0u8..40], proptest::option::weighted(0.3, 0u64..9), value),
        (gas, price, proptest::option::weighted(0.5, prop_oneof![(1000 - inv / 4) => prop_oneof![Just(0u64), Just(1), Just(2), Just(100)], inv / 4 + 1 => Just(PRIO_OVER)]), tx_type, chain, access, auths),
    )
        .prop_map(move |((sender, nonce, to, sel, arg, value), (gas, price_delta, prio, tx_type, chain, access_list, auths))| {
            let mut t = TxDef { sender, nonce, to, sel, arg, value, gas, price_delta, prio, tx_type, chain, access_list, auths };
            // keep the shape type-consistent (an inconsistent shape is an *intended* invalidity
            // only through tx_type itself)
            if t.tx_type == 0 {
                t.access_list.clear();
            }
            if t.tx_type != 4 {
                t.auths.clear();
            } else {
                if t.auths.is_empty() {
                    t.auths.push(AuthDef { authority: Some(t.sender), target: Some(AddrRef::Con(0)), nonce: AuthNonce::Correct, chain: 0 });
                }
                if let TxTo::Create(_) = t.to {
                    t.to = TxTo::Call(AddrRef::Con(0));
                }
            }
            if t.tx_type < 2 {
                t.prio = None;
            }
            if t.tx_type != 0 && t.chain == 0 {
                t.chain = 1;
            }
            t
        })
        .boxed()
}

pub fn point_kind() -> impl Strategy<Value = u32> {
    prop_oneof![
        Just(pt::EXEC_START),
        Just(pt::EXEC_DONE),
        Just(pt::EXEC_STATUS),
        Just(pt::EXEC_RECORD_HISTORY),
        Just(pt::EXEC_DEP_ADD),
        Just(pt::EXEC_DEP_REMOVE),
        Just(pt::EXEC_KEY_TX),
        Just(pt::EXEC_ERR_HEAD_CHECK),
        Just(pt::VAL_TS),
        Just(pt::VAL_READ),
        Just(pt::VAL_VERDICT),
        Just(pt::VAL_NOTIFY),
        Just(pt::FIN_LOOP),
        Just(pt::FIN_PUBLISH),
        Just(pt::COMMIT_LOOP),
        Just(pt::COMMIT_APPLY),
        Just(pt::COMMIT_PUBLISH),
        Just(pt::COMMIT_DEP),
        Just(pt::REWIND_ENTER),
        Just(pt::REWIND_LOWER_TS),
        Just(pt::REWIND_CURSOR),
        Just(pt::CLAIM_CAS),
        Just(pt::LOCK_TX_STATE_NEXT_VALIDATION),
        Just(pt::LOCK_TX_STATE_EXECUTE),
        Just(pt::DB_BASIC),
        Just(pt::DB_STORAGE),
        Just(pt::DB_PUBLISH),
        Just(pt::HIST_RECORD),
        Just(pt::HIST_SCAN),
        Just(pt::PS_DESTROY_GAP),
        Just(pt::PS_STORAGE_FILL),
        Just(pt::WAIT_CHECK1),
        Just(pt::WAIT_YIELD),
        Just(pt::WAIT_PARK),
        Just(crate::dsched::PT_HARNESS_DB),
        Just(pt::DEP_INDEX),
        Just(pt::LOCK_DEP_STATE),
        Just(pt::FRONTIER_STORE),
        Just(pt::MARK_ESTIMATE),
    ]
}

pub fn narrow_point_kind() -> impl Strategy<Value = u32> {
    prop_oneof![
        8 => Just(pt::LOCK_TX_STATE_NEXT_VALIDATION),
        2 => Just(pt::LOCK_TX_STATE_VALIDATE),
        2 => Just(pt::LOCK_TX_STATE_EXECUTE),
        1 => Just(pt::LOCK_TX_STATE_EXECUTION_TASK),
        1 => Just(pt::LOCK_TX_STATE_FINALITY),
        3 => Just(pt::VAL_TS),
        2 => Just(pt::VAL_VERDICT),
        2 => Just(pt::EXEC_STATUS),
        2 => Just(pt::REWIND_ENTER),
        2 => Just(pt::REWIND_LOWER_TS),
        2 => Just(pt::REWIND_CURSOR),
        2 => Just(pt::CLAIM_CAS),
        2 => Just(pt::EXEC_ERR_HEAD_CHECK),
        1 => Just(pt::VAL_READ),
        1 => Just(pt::EXEC_DONE),
        2 => Just(pt::DB_PUBLISH),
        2 => Just(pt::WAIT_YIELD),
        1 => Just(pt::WAIT_CHECK1),
        2 => Just(pt::FIN_LOOP),
        1 => Just(pt::FIN_PUBLISH),
        2 => Just(pt::COMMIT_LOOP),
        2 => Just(pt::COMMIT_APPLY),
        1 => Just(pt::COMMIT_PUBLISH),
        1 => Just(pt::EXEC_START),
        1 => Just(pt::HIST_RECORD),
        1 => Just(pt::HIST_SCAN),
        1 => Just(pt::LOCK_DEP_STATE),
        2 => Just(pt::CTX_PUBLISH_COMMIT),
        1 => Just(pt::CTX_PUBLISH_FINALITY),
        1 => Just(pt::CTX_UNCONFIRMED),
        1 => Just(pt::COMMIT_DEP),
        1 => Just(pt::EXEC_KEY_TX),
    ]
}

pub fn until() -> impl Strategy<Value = Until> {
    prop_oneof![
        (5u32..300).prop_map(Until::Steps),
        (prop_oneof![Just(8u32), Just(5), Just(5), Just(6), Just(4), Just(3), Just(2), Just(16), Just(17)], 0u8..3).prop_map(|(k, n)| Until::Event(k, n)),
    ]
}

pub fn hold() -> impl Strategy<Value = Hold> {
    (
        prop_oneof![5 => Just(role::WORKER), 2 => Just(role::FINALITY), 2 => Just(role::COMMIT)],
        0u8..3,
        prop_oneof![1 => point_kind().boxed(), 2 => narrow_point_kind().boxed()],
        proptest::option::weighted(0.6, 0u16..10),
        0u8..4,
        prop_oneof![
            (5u32..300).prop_map(Until::Steps),
            (prop_oneof![Just(8u32), Just(5), Just(5), Just(6), Just(4), Just(3), Just(2), Just(16), Just(17)], 0u8..3).prop_map(|(k, n)| Until::Event(k, n)),
        ],
    )
        .prop_map(|(role, nth_thread, at, arg, nth, until)| Hold { role, nth_thread, at, arg, nth, until })
}

pub fn tail(w_stale: u32) -> impl Strategy<Value = Tail> {
    prop_oneof![
        1 => Just(Tail::First),
        1 => Just(Tail::RoundRobin),
        4 => any::<u64>().prop_map(|seed| Tail::Uniform { seed }),
        5 => (any::<u64>(), prop_oneof![Just(128u8), Just(180), Just(230)]).prop_map(|(seed, stay)| Tail::Sticky { seed, stay }),
        3 => (any::<u64>(), 1u8..5, prop_oneof![Just(200u32), Just(800), Just(3000)]).prop_map(|(seed, depth, span)| Tail::Pct { seed, depth, span }),
        2 => (any::<u64>(), 0u8..8, 0u32..400, 20u32..600).prop_map(|(seed, victim, from, len)| Tail::Starve { seed, victim, from, len }),
        6 => (any::<u64>(), narrow_point_kind(), prop_oneof![Just(40u8), Just(100), Just(200)], until(), prop_oneof![Just(0u8), Just(128), Just(200)])
            .prop_map(|(seed, at, prob, until, stay)| Tail::DelayAt { seed, at, prob, until, stay }),
        w_stale => (any::<u64>(), prop_oneof![Just(60u32), Just(200), Just(600)], prop_oneof![Just(0u8), Just(128), Just(200)])
            .prop_map(|(seed, len, stay)| Tail::StaleValidation { seed, len, stay }),
    ]
}

pub fn schedule(w_stale: u32) -> impl Strategy<Value = Schedule> {
    (proptest::collection::vec(any::<u8>(), 0..48), tail(w_stale), proptest::collection::vec(hold(), 0..4))
        .prop_map(|(prefix, tail, holds)| Schedule { exact: vec![], prefix, tail, holds })
}

fn weighted_u8(items: &[(u32, u8)]) -> BoxedStrategy<u8> {
    let v: Vec<(u32, BoxedStrategy<u8>)> = items.iter().map(|(w, x)| (*w, Just(*x).boxed())).collect();
    proptest::strategy::Union::new_weighted(v).boxed()
}

pub fn scenario(g: &GenCfg) -> BoxedStrategy<Scenario> {
    let g = g.clone();
    let g_outer = g.clone();
    (3u8..=6, 1u8..=4, weighted_u8(&g.specs), weighted_u8(&g.benef_roles))
        .prop_flat_map(move |(n_eoa, n_con, spec, benef_role)| {
            let d = Dim { n_eoa, n_con, w_benef: (g.w_benef_touch / 8).max(1), w_custom: g.w_custom };
            let g = g.clone();
            let benef = match benef_role {
                0 => Just(AddrRef::Absent(0xBE)).boxed(),
                1 => (0..n_eoa).prop_map(AddrRef::Eoa).boxed(),
                2 => (0..n_con).prop_map(AddrRef::Con).boxed(),
                _ => Just(AddrRef::Eoa(n_eoa)).boxed(), // an extra EOA that never sends
            };
            let extra_eoa = benef_role == 3;
            let n_eoa_total = n_eoa as usize + extra_eoa as usize;
            let bf: Vec<(u32, BoxedStrategy<u64>)> = g.basefees.iter().map(|b| (1u32, Just(*b).boxed())).collect();
            (
                proptest::collection::vec(eoa(d, &g), n_eoa_total..=n_eoa_total),
                proptest::collection::vec(contract(d, &g), n_con as usize..=n_con as usize),
                benef,
                proptest::collection::vec(tx(d, &g, spec), g.min_txs..=g.max_txs),
                (1u8..=g.max_workers, proptest::bool::weighted(g.disable_nonce_check_pm as f64 / 1000.0), proptest::strategy::Union::new_weighted(bf)),
                schedule(g.w_stale_tail),
                proptest::bool::weighted(0.7),
                proptest::bool::weighted(if g.allow_free_running { 0.15 } else { 0.0 }),
                (proptest::bool::weighted((g.chain_pm.clamp(1, 999)) as f64 / 1000.0), chain_contract(g.chain_benef, g.chain_destroy, g.chain_fund), proptest::collection::vec((0u8..5, 0u8..8), 12), proptest::bool::weighted((g.fund_pm.clamp(1, 999)) as f64 / 1000.0), (0u8..8, 0u8..8, 0u8..8)),
                if g.facade_fault_pm == 0 {
                    Just(None).boxed()
                } else {
                    proptest::option::weighted(
                        g.facade_fault_pm as f64 / 1000.0,
                        prop_oneof![
                            prop_oneof![Just(AddrRef::Eoa(0)), Just(AddrRef::Con(0)), Just(AddrRef::Absent(1))].prop_map(DbKey::Basic),
                            (0u8..3).prop_map(|s| DbKey::Storage(AddrRef::Con(0), s)),
                        ],
                    )
                    .boxed()
                },
            )
                .prop_map(move |(mut eoas, mut contracts, beneficiary, mut txs, (concurrency, dnc, basefee), sched, db_yields, free, (chain, chain_con, chain_sel, fund, fund_shape), facade_fault)| {
                    let chain = chain && g.chain_pm > 0;
                    let fund = fund && g.fund_pm > 0;
                    if chain {
                        // one hot contract; transactions from (mostly) distinct senders call its routines
                        contracts[0] = chain_con;
                        if g.chain_destroy {
                            let victim = ContractDef {
                                balance: Bal::Wei(5),
                                storage: vec![(0, 3), (1, 4)],
                                code: Code::Routines(vec![
                                    vec![Stmt::Return(Expr::Add(Box::new(Expr::SLoad(0)), Box::new(Expr::SLoad(1))))],
                                    vec![Stmt::SelfDestruct(AddrRef::Absent(2))],
                                    vec![Stmt::SStore(0, Expr::CallDataWord(0))],
                                    vec![Stmt::SelfDestruct(AddrRef::Absent(2)), Stmt::Revert],
                                ]),
                            };
                            if contracts.len() >= 2 {
                                contracts[1] = victim;
                            } else {
                                contracts.push(victim);
                            }
                        }
                        if g.chain_fund {
                            for k in 0..eoas.len().min(3) {
                                if (chain_sel[k].1 as usize + k) % 2 == 0 {
                                    eoas[k].balance = Bal::Zero;
                                    eoas[k].delegate = None;
                                }
                            }
                        }
                        let ne = (eoas.len() - extra_eoa as usize).max(1) as u8;
                        for (i, t) in txs.iter_mut().enumerate() {
                            let (sel, snd) = chain_sel[i % chain_sel.len()];
                            if matches!(t.nonce, NoncePolicy::Correct) && matches!(t.gas, GasDef::Limit(_)) && t.tx_type != 4 {
                                t.to = TxTo::Call(AddrRef::Con(0));
                                t.sel = sel;
                                t.value = ValueDef::Zero;
                                t.sender = if (snd as usize) < 6 { (i as u8) % ne } else { snd % ne };
                            }
                        }
                    }
                    if fund && txs.len() >= 2 {
                        // EOA f starts with nothing; transaction p (from a rich sender) funds it;
                        // some later transactions are sent from f
                        let ne = (eoas.len() - extra_eoa as usize).max(2);
                        let f = (fund_shape.0 as usize) % ne;
                        let rich = (f + 1) % ne;
                        eoas[f].balance = Bal::Zero;
                        eoas[f].delegate = None;
                        eoas[rich].balance = Bal::Ether(10);
                        let p = (fund_shape.1 as usize) % (txs.len() - 1);
                        txs[p].sender = rich as u8;
                        txs[p].to = TxTo::Call(AddrRef::Eoa(f as u8));
                        txs[p].value = ValueDef::Wei(1_000_000_000_000_000_000);
                        txs[p].tx_type = txs[p].tx_type.min(2);
                        if txs[p].tx_type == 4 { txs[p].tx_type = 0; }
                        txs[p].auths.clear();
                        txs[p].nonce = NoncePolicy::Correct;
                        txs[p].gas = GasDef::Limit(120_000);
                        txs[p].price_delta = txs[p].price_delta.max(0);
                        for (k, t) in txs.iter_mut().enumerate().skip(p + 1) {
                            if (k + fund_shape.2 as usize) % 2 == 0 && t.tx_type != 4 {
                                t.sender = f as u8;
                                t.nonce = NoncePolicy::Correct;
                                t.price_delta = t.price_delta.max(1);
                            }
                        }
                        for t in txs.iter_mut().take(p) {
                            if t.sender as usize == f {
                                t.sender = rich as u8;
                            }
                        }
                    }
                    if extra_eoa {
                        let last = eoas.len() - 1;
                        eoas[last].delegate = None;
                        if g.near_max_benef {
                            // gaps around the size of one or two fee rewards (21 000 - 150 000 gas units
                            // times a price of 1-3): some credits fit, some overflow, and the order matters
                            let gap = [1000u64, 30_000, 70_000, 150_000, 400_000][(txs.len() * 7 + eoas.len() + contracts.len() * 3) % 5];
                            eoas[last].balance = Bal::NearMax(gap);
                        }
                    }
                    // pre-London: no base fee
                    let basefee = if spec >= SPEC_LONDON { basefee } else { 0 };
                    Scenario {
                        spec,
                        disable_nonce_check: dnc,
                        basefee,
                        world: World { eoas, contracts, beneficiary, placed: vec![] },
                        txs,
                        grevm: GrevmCfg { concurrency, ..Default::default() },
                        faults: facade_fault.map(|key| vec![Fault { key, mode: FaultMode::Persistent }]).unwrap_or_default(),
                        raw_faults: vec![],
                        schedule: if free { None } else { Some(sched) },
                        db_yields: db_yields && !free,
                        precompile_panic_at: 0,
                    }
                })
        })
        .prop_map(move |mut sc| {
            if g_outer.panics && sc.faults.is_empty() {
                // derive a panic plan deterministically from the scenario itself
                let h = sc.txs.len() as u64 * 31 + sc.basefee + sc.spec as u64 * 7 + sc.world.contracts.len() as u64 * 13 + sc.grevm.concurrency as u64;
                if h % 8 == 0 {
                    let key = match h % 3 {
                        0 => DbKey::Basic(AddrRef::Con((h % 2) as u8)),
                        1 => DbKey::Basic(AddrRef::Eoa((h % 3) as u8)),
                        _ => DbKey::Storage(AddrRef::Con(0), (h % 4) as u8),
                    };
                    sc.faults.push(Fault { key, mode: FaultMode::PanicNth((h % 3) as u8) });
                }
            }
            // sender indices must stay inside the sending EOAs
            let n = sc.world.eoas.len() as u8;
            for t in sc.txs.iter_mut() {
                t.sender %= n.max(1);
            }
            sc
        })
        .boxed()
}

// ---------------------------------------------------------------------------------------------
// T9: delegated-account policy template (C06/C12/C13)
// ---------------------------------------------------------------------------------------------

fn big_value() -> impl Strategy<Value = u64> {
    prop_oneof![
        2 => Just(0u64),
        2 => 1u64..5,
        2 => Just(1_000u64),
        3 => Just(60_000u64),
        3 => Just(120_000u64),
        3 => Just(400_000u64),
        2 => Just(1_000_000u64),
        1 => Just(5_000_000_000u64),
    ]
}

fn actor_stmt(d: Dim) -> BoxedStrategy<Stmt> {
    let target = prop_oneof![
        3 => (0u8..3).prop_map(AddrRef::Absent),
        3 => (0..d.n_eoa.max(1)).prop_map(AddrRef::Eoa),
        2 => (0..d.n_con.max(1)).prop_map(AddrRef::Con),
        1 => Just(AddrRef::Benef),
    ];
    prop_oneof![
        5 => (target.clone(), big_value(), 0u8..5, proptest::option::weighted(0.4, 0u8..6), prop_oneof![8 => Just(CallKind::Call), 1 => Just(CallKind::CallCode), 1 => Just(CallKind::DelegateCall), 1 => Just(CallKind::StaticCall)])
            .prop_map(|(target, value, sel, store, kind)| Stmt::Call { kind, target, value, sel, arg: None, small_gas: false, store }),
        3 => (any::<bool>(), 0u8..2, 0u8..INIT_KINDS, big_value(), proptest::option::weighted(0.5, 0u8..6))
            .prop_map(|(create2, salt, init, value, store)| Stmt::Create { create2, salt, init, value, store }),
        1 => target.clone().prop_map(Stmt::SelfDestruct),
        // ping-pong with the refunder (second contract of half of the policy worlds): value leaves the
        // executing account and routine k of the refunder sends value to EOA k
        2 => (prop_oneof![Just(1_000u64), Just(60_000u64), Just(120_000u64)], 0u8..5).prop_map(|(value, sel)| Stmt::Call { kind: CallKind::Call, target: AddrRef::Con(1), value, sel, arg: None, small_gas: false, store: None }),
        2 => ((0u8..6), (0u64..4)).prop_map(|(s, v)| Stmt::SStore(s, Expr::Const(v))),
        1 => Just(Stmt::Revert),
        1 => (0u8..6).prop_map(|s| Stmt::Return(Expr::SLoad(s))),
    ]
    .boxed()
}

/// Scenario on Prague/Osaka with EOAs delegated to an "actor" contract that creates, sends value
/// and self-destructs, transactions that run that code in the delegated context, and later own
/// transactions of the delegated accounts with balances around the sum of their maximum costs.
pub fn policy_scenario(g: &GenCfg) -> BoxedStrategy<Scenario> {
    let mut g2 = g.clone();
    g2.fund_pm = 0;
    g2.specs = vec![(3, 12), (2, 13)];
    g2.basefees = vec![0];
    g2.chain_pm = 0;
    g2.w_7702 = 200;
    let d = Dim { n_eoa: 4, n_con: 2, w_benef: 4, w_custom: 0 };
    (
        scenario(&g2),
        proptest::collection::vec(proptest::collection::vec(actor_stmt(d), 1..4), 2..5),
        // delegated accounts: index, balance in units of 20_000 wei
        proptest::collection::vec((0u8..3, prop_oneof![Just(0u64), 1u64..80, Just(1_000_000u64)], 0u8..2), 1..3),
        // transaction shaping: (kind, delegated idx, sel, value class, gas class)
        proptest::collection::vec((0u8..10, 0u8..3, 0u8..5, big_value(), prop_oneof![Just(60_000u64), Just(120_000), Just(400_000)]), 12),
    )
        .prop_map(|(mut sc, routines, delegs, shape)| {
            let n_eoa = sc.world.eoas.len() as u8;
            let senders = n_eoa.min(4).max(1);
            // actor contract
            sc.world.contracts[0] = ContractDef { balance: Bal::Wei(50_000), storage: vec![], code: Code::Routines(routines) };
            // half of the worlds have a "refunder" as second contract: routine k sends value back to
            // EOA k, so a delegated account can be debited and credited again within one transaction
            if sc.world.contracts.len() >= 2 && shape[0].0 % 2 == 0 {
                let back = |k: u8, v: u64| vec![Stmt::Call { kind: CallKind::Call, target: AddrRef::Eoa(k), value: v, sel: 9, arg: None, small_gas: false, store: None }];
                sc.world.contracts[1] = ContractDef {
                    balance: Bal::Ether(1),
                    storage: vec![],
                    code: Code::Routines(vec![back(0, 60_000), back(1, 120_000), back(2, 60_000), back(3, 400_000), back(0, 1_000)]),
                };
            }
            for (idx, units, which) in &delegs {
                let i = (*idx % senders) as usize;
                let target = if *which == 0 || sc.world.contracts.len() < 2 { AddrRef::Con(0) } else { AddrRef::Con(1) };
                sc.world.eoas[i].delegate = Some(target);
                sc.world.eoas[i].balance = Bal::Wei(units.saturating_mul(20_000));
                sc.world.eoas[i].nonce = sc.world.eoas[i].nonce.min(50);
            }
            let deleg_ids: Vec<u8> = delegs.iter().map(|(i, _, _)| *i % senders).collect();
            let sc_spec_prague = sc.spec >= SPEC_PRAGUE;
            for (k, t) in sc.txs.iter_mut().enumerate() {
                let (kind, di, sel, value, gas) = shape[k % shape.len()];
                let dacc = deleg_ids[di as usize % deleg_ids.len()];
                if t.tx_type == 4 || !matches!(t.nonce, NoncePolicy::Correct) {
                    continue;
                }
                t.price_delta = 1;
                t.prio = t.prio.map(|_| 1);
                t.gas = GasDef::Limit(gas);
                match kind {
                    // someone else runs the delegated account's code
                    0..=3 => {
                        t.sender = (dacc + 1 + (k as u8 % (senders.max(2) - 1))) % senders;
                        t.to = TxTo::Call(AddrRef::Eoa(dacc));
                        t.sel = sel;
                        t.value = if value % 3 == 0 { ValueDef::Wei(value) } else { ValueDef::Zero };
                        // a third of them carry an authorisation list of existing accounts (the
                        // forced revert must keep its effects and its refund)
                        if kind == 3 && sc_spec_prague {
                            t.tx_type = 4;
                            t.chain = 1;
                            t.prio = Some(1);
                            let who = (dacc + 1 + sel % 3) % senders;
                            t.auths = vec![AuthDef { authority: Some(who), target: Some(AddrRef::Con(0)), nonce: AuthNonce::Correct, chain: 1 }];
                            if value % 2 == 1 {
                                t.auths.push(AuthDef { authority: Some((who + 1) % senders), target: Some(AddrRef::Con(0)), nonce: AuthNonce::Correct, chain: 0 });
                            }
                        }
                    }
                    // the delegated account sends an ordinary transaction later
                    4..=6 => {
                        t.sender = dacc;
                        t.to = TxTo::Call(AddrRef::Absent(1));
                        t.value = if value % 2 == 0 { ValueDef::Wei(value.min(400_000)) } else { ValueDef::Zero };
                    }
                    // the delegated account calls itself (self-sponsored delegated execution)
                    7 => {
                        t.sender = dacc;
                        t.to = TxTo::Call(AddrRef::Eoa(dacc));
                        t.sel = sel;
                        t.value = ValueDef::Zero;
                    }
                    // create transaction from the delegated account
                    8 => {
                        t.sender = dacc;
                        t.to = TxTo::Create(sel % INIT_KINDS);
                        t.value = ValueDef::Zero;
                    }
                    // create transaction of someone else whose init code runs the delegated account's code
                    _ => {
                        t.sender = (dacc + 1 + (k as u8 % (senders.max(2) - 1))) % senders;
                        t.to = TxTo::Create(7 + dacc.min(2));
                        t.value = ValueDef::Zero;
                        t.gas = GasDef::Limit(400_000);
                    }
                }
            }
            // boundary balances: 40% of the delegated accounts start with exactly the maximum cost
            // of their own transactions plus one of the amounts the actor routines send away, so
            // that a delegated debit lands exactly on (or one unit next to) the reserve requirement
            for (n, (idx, units, _)) in delegs.iter().enumerate() {
                if units % 5 >= 2 {
                    continue;
                }
                let i = *idx % senders;
                let mut cost = 0u64;
                for t in &sc.txs {
                    if t.sender == i && t.tx_type != 4 && matches!(t.nonce, NoncePolicy::Correct) {
                        let gas = match t.gas {
                            GasDef::Limit(g) => g,
                            _ => 0,
                        };
                        let value = match t.value {
                            ValueDef::Wei(v) => v,
                            _ => 0,
                        };
                        cost = cost.saturating_add(gas).saturating_add(value);
                    }
                }
                let extra = shape[n % shape.len()].3;
                let nudge = match units % 7 {
                    0 => 1,
                    _ => 0,
                };
                sc.world.eoas[i as usize].balance = Bal::Wei(cost.saturating_add(extra).saturating_sub(nudge));
            }
            sc
        })
        .boxed()
}

// ---------------------------------------------------------------------------------------------
// Flip-flop template: a transaction whose VALIDITY depends on a conditional effect of an earlier
// transaction, which in turn depends on a guard slot that two still earlier transactions toggle.
// Speculative incarnations of the dependent transaction alternate between success and a
// validation error while in-order execution executes it.
// ---------------------------------------------------------------------------------------------

pub fn flipflop_scenario(g: &GenCfg) -> BoxedStrategy<Scenario> {
    let mut g2 = g.clone();
    g2.chain_pm = 0;
    g2.fund_pm = 0;
    g2.min_txs = 6;
    g2.max_txs = g.max_txs.max(7);
    g2.specs = vec![(1, 8), (2, 10), (2, 11), (2, 12)];
    (scenario(&g2), 0u8..4, 0u8..4, 0u8..4, any::<bool>(), proptest::collection::vec(0u8..3, 5), 0u8..3)
        .prop_map(|(mut sc, guard, lslot, rslot, polarity, gaps, fidx)| {
            let n_eoa = sc.world.eoas.len();
            if n_eoa < 3 || sc.txs.len() < 6 {
                return sc;
            }
            let f = (fidx as usize) % n_eoa.min(3);
            let lslot = if lslot == guard { (lslot + 1) % 4 } else { lslot };
            let rslot = if rslot == guard || rslot == lslot { (guard.max(lslot) + 1) % 5 } else { rslot };
            let (fund_val, off_val) = if polarity { (1u64, 0u64) } else { (0u64, 1u64) };
            let cond = if polarity { Expr::SLoad(guard) } else { Expr::IsZero(Box::new(Expr::SLoad(guard))) };
            let fund = Stmt::If(
                cond,
                vec![Stmt::Call { kind: CallKind::Call, target: AddrRef::Eoa(f as u8), value: 1_000_000_000_000_000_000, sel: 0, arg: None, small_gas: false, store: None }],
                vec![],
            );
            sc.world.contracts[0] = ContractDef {
                balance: Bal::Ether(50),
                storage: vec![(guard, fund_val)],
                code: Code::Routines(vec![
                    vec![fund],
                    vec![Stmt::SStore(guard, Expr::Const(off_val))],
                    vec![Stmt::SStore(guard, Expr::Const(fund_val))],
                    vec![Stmt::SStore(lslot, Expr::Add(Box::new(Expr::CallDataWord(0)), Box::new(Expr::Const(7))))],
                    vec![Stmt::SStore(rslot, Expr::Add(Box::new(Expr::SLoad(lslot)), Box::new(Expr::Const(1))))],
                ]),
            };
            sc.world.eoas[f].balance = Bal::Zero;
            sc.world.eoas[f].delegate = None;
            sc.world.eoas[f].nonce = sc.world.eoas[f].nonce.min(100);
            for (i, e) in sc.world.eoas.iter_mut().enumerate() {
                if i != f {
                    e.balance = Bal::Ether(10);
                    e.nonce = e.nonce.min(100);
                }
            }
            let others: Vec<u8> = (0..n_eoa as u8).filter(|i| *i as usize != f).collect();
            // positions of the five roles with generated gaps, in order
            let roles = [1u8, 2, 0, 3, 4]; // off, on, fund, dependent (from f), reader
            let mut pos = 0usize;
            let n = sc.txs.len();
            let mut used = vec![false; n];
            let mut role_pos = [usize::MAX; 5];
            for (k, sel) in roles.iter().enumerate() {
                pos += if k == 0 { (gaps[k] as usize) % 2 } else { (gaps[k] as usize) % 2 };
                if pos >= n {
                    break;
                }
                let t = &mut sc.txs[pos];
                *t = TxDef {
                    sender: if *sel == 3 { f as u8 } else { others[(k + pos) % others.len()] },
                    sel: *sel,
                    arg: Some(k as u64 + 1),
                    to: TxTo::Call(AddrRef::Con(0)),
                    gas: GasDef::Limit(120_000),
                    price_delta: 1,
                    tx_type: 0,
                    ..TxDef::default()
                };
                used[pos] = true;
                role_pos[k] = pos;
                pos += 1;
            }
            // in 60% of the cases steer the schedule towards the interesting order: the guard
            // toggles are executed late (the conditional funder and the dependent transaction run
            // first on the pre-state guard), and the second toggle later still
            if gaps[4] != 0 && role_pos[1] != usize::MAX {
                if let Some(s) = sc.schedule.as_mut() {
                    s.holds.clear();
                    // "off" waits for two finished attempts (the funder and the dependent on the pre-state guard)
                    s.holds.push(Hold { role: role::WORKER, nth_thread: 255, at: pt::EXEC_START, arg: Some(role_pos[0] as u16), nth: 0, until: Until::EventOrSteps(2, 1 + gaps[3] % 2, 1500) });
                    // the dependent waits for the funder's first attempt
                    if role_pos[3] != usize::MAX {
                        s.holds.push(Hold { role: role::WORKER, nth_thread: 255, at: pt::EXEC_START, arg: Some(role_pos[3] as u16), nth: 0, until: Until::EventOrSteps(2, 0, 800) });
                    }
                    // "on" waits until a few validations have happened after that
                    s.holds.push(Hold { role: role::WORKER, nth_thread: 255, at: pt::EXEC_START, arg: Some(role_pos[1] as u16), nth: 0, until: Until::EventOrSteps(3, 3 + gaps[2] * 2, 3000) });
                    sc.grevm.concurrency = 4;
                }
            }
            // nobody else sends from f or funds it
            for (i, t) in sc.txs.iter_mut().enumerate() {
                if !used[i] {
                    if t.sender as usize == f {
                        t.sender = others[i % others.len()];
                    }
                    if let TxTo::Call(AddrRef::Eoa(k)) = &t.to {
                        if *k as usize == f {
                            t.to = TxTo::Call(AddrRef::Con(0));
                            t.sel = 4;
                        }
                    }
                    if t.tx_type == 4 {
                        t.tx_type = 0;
                        t.auths.clear();
                    }
                }
            }
            sc.disable_nonce_check = false;
            sc.grevm.concurrency = sc.grevm.concurrency.max(2);
            sc.grevm.force_sequential = false;
            sc
        })
        .boxed()
}

// ---------------------------------------------------------------------------------------------
// Destroy/create race template (C08): whether a transaction destroys (or creates) an account
// depends on a guard slot an EARLIER transaction of the block sets, so a speculative incarnation
// may destroy/create it while the final one does not (or vice versa); later transactions probe the
// account's storage and existence.
// ---------------------------------------------------------------------------------------------

pub fn destroy_race_scenario(g: &GenCfg) -> BoxedStrategy<Scenario> {
    let mut g2 = g.clone();
    g2.chain_pm = 0;
    g2.fund_pm = 0;
    g2.min_txs = 4;
    g2.max_txs = g.max_txs.max(6);
    (scenario(&g2), 0u8..4, any::<bool>(), any::<bool>(), 0u8..6, proptest::collection::vec(0u8..3, 6), 0u8..INIT_KINDS, 0u8..2)
        .prop_map(|(mut sc, guard, polarity, final_destroys, variant, gaps, init, salt)| {
            if sc.txs.len() < 4 || sc.world.eoas.len() < 3 {
                return sc;
            }
            // pre-state guard value g0; the setter writes g1; the conditional action fires on `fire_on`
            let (g0, g1) = if polarity { (0u64, 1u64) } else { (1u64, 0u64) };
            let fire_on_g1 = final_destroys;
            let cond_true_when_one = (g1 == 1) == fire_on_g1;
            let cond = if cond_true_when_one { Expr::SLoad(guard) } else { Expr::IsZero(Box::new(Expr::SLoad(guard))) };
            let pslot = (guard + 1) % 5;
            let created = AddrRef::Created2 { creator: 0, salt, init };
            let (action, probe_target): (Stmt, AddrRef) = match variant {
                // destroy the victim through a call
                0 => (Stmt::Call { kind: CallKind::Call, target: AddrRef::Con(1), value: 0, sel: 1, arg: None, small_gas: false, store: None }, AddrRef::Con(1)),
                // the same inside a frame that reverts: never destroys
                1 => (Stmt::Call { kind: CallKind::Call, target: AddrRef::Con(1), value: 0, sel: 3, arg: None, small_gas: false, store: None }, AddrRef::Con(1)),
                // conditional CREATE2 (init code may write storage)
                2 => (Stmt::Create { create2: true, salt, init, value: 0, store: Some((guard + 2) % 5) }, created.clone()),
                // destroy, then re-create something else in the same transaction
                3 => (Stmt::Call { kind: CallKind::Call, target: AddrRef::Con(1), value: 0, sel: 1, arg: None, small_gas: false, store: Some((guard + 2) % 5) }, AddrRef::Con(1)),
                // (not generated: a pre-state account with storage but neither code nor nonce at the CREATE2
                // address. revm's own State assumes such accounts have no storage - a change of a
                // Loaded account without nonce and code makes it InMemoryChange, i.e. storage-known -
                // so its answers depend on whether a slot was read before the change; see DESIGN 5b-11)
                // a PRE-STATE contract with storage lives at the CREATE2 address: calling it destroys
                // it (its runtime is the self-destructor), a later routine re-creates it
                _ => (Stmt::Call { kind: CallKind::Call, target: created.clone(), value: 0, sel: 0, arg: None, small_gas: false, store: None }, created.clone()),
            };
            let placed_variant = variant >= 4;
            let probe = vec![
                Stmt::Call { kind: CallKind::Call, target: probe_target.clone(), value: 0, sel: 0, arg: None, small_gas: false, store: Some(pslot) },
                Stmt::SStore((guard + 3) % 5, Expr::Add(Box::new(Expr::ExtCodeSize(probe_target.clone())), Box::new(Expr::Balance(probe_target)))),
            ];
            sc.world.contracts[0] = ContractDef {
                balance: Bal::Zero,
                storage: vec![(guard, g0)],
                code: Code::Routines(vec![
                    vec![Stmt::SStore(guard, Expr::Const(g1))],
                    vec![Stmt::If(cond, vec![action], vec![])],
                    probe,
                    vec![Stmt::SStore(guard, Expr::Const(g0))],
                    // re-create at the CREATE2 address (fails with a collision while something lives there)
                    vec![Stmt::Create { create2: true, salt, init, value: 0, store: Some((guard + 2) % 5) }],
                ]),
            };
            if placed_variant {
                sc.world.placed = vec![PlacedDef { at: created.clone(), balance: Bal::Wei(3), storage: vec![(0, 5), (1, 9), (3, 2)], runtime: 1 }];
                // re-creation needs the account to be really gone: pre-Cancun self-destruct
                if sc.spec >= SPEC_CANCUN {
                    sc.spec = SPEC_SHANGHAI;
                }
            }
            let victim = ContractDef {
                balance: Bal::Wei(5),
                storage: vec![(0, 3), (1, 4)],
                code: Code::Routines(vec![
                    vec![Stmt::Return(Expr::Add(Box::new(Expr::SLoad(0)), Box::new(Expr::SLoad(1))))],
                    vec![Stmt::SelfDestruct(AddrRef::Absent(2))],
                    vec![Stmt::SStore(0, Expr::CallDataWord(0))],
                    vec![Stmt::SelfDestruct(AddrRef::Absent(2)), Stmt::Revert],
                ]),
            };
            if sc.world.contracts.len() >= 2 {
                sc.world.contracts[1] = victim;
            } else {
                sc.world.contracts.push(victim);
            }
            for e in sc.world.eoas.iter_mut() {
                e.balance = Bal::Ether(10);
                e.nonce = e.nonce.min(100);
            }
            let n = sc.txs.len();
            let ne = sc.world.eoas.len() as u8;
            // roles: setter, conditional action, probe, (probe again)
            let roles = if placed_variant { [0u8, 1, 4, 2] } else { [0u8, 1, 2, 2] };
            let mut pos = 0usize;
            let mut role_pos = [usize::MAX; 4];
            for (k, sel) in roles.iter().enumerate() {
                pos += (gaps[k] as usize) % 2;
                if pos >= n {
                    break;
                }
                sc.txs[pos] = TxDef { sender: (k as u8 + gaps[k]) % ne, sel: *sel, to: TxTo::Call(AddrRef::Con(0)), gas: GasDef::Limit(400_000), price_delta: 1, tx_type: 0, ..TxDef::default() };
                role_pos[k] = pos;
                pos += 1;
            }
            for t in sc.txs.iter_mut() {
                if t.tx_type == 4 {
                    t.tx_type = 0;
                    t.auths.clear();
                }
            }
            if gaps[4] != 0 && role_pos[1] != usize::MAX {
                if let Some(s) = sc.schedule.as_mut() {
                    s.holds.clear();
                    // the setter waits until the conditional action ran once on the pre-state guard
                    s.holds.push(Hold { role: role::WORKER, nth_thread: 255, at: pt::EXEC_START, arg: Some(role_pos[0] as u16), nth: 0, until: Until::EventOrSteps(2, gaps[5] % 2, 1200) });
                    if role_pos[2] != usize::MAX && gaps[3] != 0 {
                        // the probe either starts late, or straddles the publication of the
                        // conditional action: it has read the account, pauses before its first
                        // storage read and resumes after the action's attempt has been published
                        let straddle = gaps[3] == 2 && gaps[2] != 0;
                        let at = if straddle { pt::DB_STORAGE } else { pt::EXEC_START };
                        // the straddling probe waits for the end of an attempt of the conditional action itself
                        let kind = if straddle { crate::dsched::per_tx_kind(2, role_pos[1]) } else { 2 };
                        s.holds.push(Hold { role: role::WORKER, nth_thread: 255, at, arg: Some(role_pos[2] as u16), nth: 0, until: Until::EventOrSteps(kind, if straddle { 0 } else { 1 + gaps[3] % 2 }, 2000) });
                        if straddle && gaps[0] != 0 {
                            // ... and finishes its attempt only after the conditional action has been
                            // invalidated and re-executed (so the probe is validated against the final
                            // incarnation although it read the withdrawn one)
                            s.holds.push(Hold { role: role::WORKER, nth_thread: 255, at: pt::EXEC_DONE, arg: Some(role_pos[2] as u16), nth: 0, until: Until::EventOrSteps(crate::dsched::per_tx_kind(2, role_pos[1]), 0, 3000) });
                        }
                    }
                    sc.grevm.concurrency = sc.grevm.concurrency.max(3);
                }
            }
            sc.grevm.force_sequential = false;
            sc
        })
        .boxed()
}

// ---------------------------------------------------------------------------------------------
// Fee-fold template (C07): several transactions only pay the fee recipient, one of the OLDER payers
// uses a data-dependent amount of gas (its path depends on a guard slot an earlier transaction
// flips), a NEWER payer is independent of everything, and later transactions read the recipient's
// balance. A reader that folded the first incarnation's credit must be re-executed when only an
// older link of the credit chain changes.
// ---------------------------------------------------------------------------------------------

pub fn fee_fold_scenario(g: &GenCfg) -> BoxedStrategy<Scenario> {
    let mut g2 = g.clone();
    g2.chain_pm = 0;
    g2.fund_pm = 0;
    g2.min_txs = 5;
    g2.max_txs = g.max_txs.max(7);
    (scenario(&g2), 0u8..4, any::<bool>(), proptest::collection::vec(0u8..3, 8), 0u8..4)
        .prop_map(|(mut sc, guard, polarity, gaps, reader_kind)| {
            if sc.txs.len() < 5 || sc.world.eoas.len() < 4 || sc.world.contracts.len() < 2 {
                return sc;
            }
            let (g0, g1) = if polarity { (0u64, 1u64) } else { (1u64, 0u64) };
            let a = (guard + 1) % 5;
            let b = (guard + 2) % 5;
            sc.world.contracts[0] = ContractDef {
                balance: Bal::Zero,
                storage: vec![(guard, g0)],
                code: Code::Routines(vec![
                    // 0: flip the guard
                    vec![Stmt::SStore(guard, Expr::Const(g1))],
                    // 1: gas depends on the guard (two fresh SSTOREs or none)
                    vec![Stmt::If(Expr::SLoad(guard), vec![Stmt::SStore(a, Expr::Const(5)), Stmt::SStore(b, Expr::Const(6))], vec![])],
                    // 2: flip it back
                    vec![Stmt::SStore(guard, Expr::Const(g0))],
                ]),
            };
            let read = match reader_kind {
                0 => Expr::Balance(AddrRef::Benef),
                1 => Expr::Add(Box::new(Expr::Balance(AddrRef::Benef)), Box::new(Expr::ExtCodeSize(AddrRef::Benef))),
                2 => Expr::Balance(AddrRef::Benef),
                _ => Expr::ExtCodeHash(AddrRef::Benef),
            };
            sc.world.contracts[1] = ContractDef {
                balance: Bal::Wei(9),
                storage: vec![],
                code: Code::Routines(vec![
                    vec![Stmt::SStore(0, read.clone())],
                    vec![Stmt::SStore(1, read), Stmt::Call { kind: CallKind::Call, target: AddrRef::Benef, value: 1, sel: 0, arg: None, small_gas: false, store: Some(2) }],
                ]),
            };
            for e in sc.world.eoas.iter_mut() {
                e.balance = Bal::Ether(10);
                e.nonce = e.nonce.min(100);
                e.delegate = None;
            }
            // the fee recipient only receives fees (an absent or passive account)
            if !matches!(sc.world.beneficiary, AddrRef::Absent(_)) {
                sc.world.beneficiary = AddrRef::Absent(0xBE);
            }
            let n = sc.txs.len();
            let ne = sc.world.eoas.len() as u8;
            // roles: 0 flip guard, 1 guard-dependent payer, 2 independent payer, 3 reader, 4 reader again / flip back
            let mut pos = 0usize;
            let mut role_pos = [usize::MAX; 5];
            for k in 0..5usize {
                pos += (gaps[k] as usize) % 2;
                if pos >= n {
                    break;
                }
                let sender = (k as u8) % ne.min(4);
                sc.txs[pos] = match k {
                    0 => TxDef { sender, sel: 0, to: TxTo::Call(AddrRef::Con(0)), gas: GasDef::Limit(120_000), price_delta: 1 + gaps[5] as i32, ..TxDef::default() },
                    1 => TxDef { sender, sel: 1, to: TxTo::Call(AddrRef::Con(0)), gas: GasDef::Limit(120_000), price_delta: 2, ..TxDef::default() },
                    2 => TxDef { sender, to: TxTo::Call(AddrRef::Absent(1)), value: ValueDef::Wei(3), gas: GasDef::Limit(60_000), price_delta: 3, ..TxDef::default() },
                    3 => TxDef { sender, sel: gaps[6] % 2, to: TxTo::Call(AddrRef::Con(1)), gas: GasDef::Limit(120_000), price_delta: 1, ..TxDef::default() },
                    _ => {
                        if gaps[7] == 0 {
                            TxDef { sender: 0, sel: 2, to: TxTo::Call(AddrRef::Con(0)), gas: GasDef::Limit(120_000), price_delta: 1, ..TxDef::default() }
                        } else {
                            TxDef { sender: 3 % ne, sel: 0, to: TxTo::Call(AddrRef::Con(1)), gas: GasDef::Limit(120_000), price_delta: 1, ..TxDef::default() }
                        }
                    }
                };
                role_pos[k] = pos;
                pos += 1;
            }
            for t in sc.txs.iter_mut() {
                if t.tx_type == 4 {
                    t.tx_type = 0;
                    t.auths.clear();
                }
            }
            if sc.basefee == 0 && gaps[5] == 0 {
                sc.basefee = 0;
            }
            if gaps[4] != 0 && role_pos[3] != usize::MAX {
                if let Some(s) = sc.schedule.as_mut() {
                    s.holds.clear();
                    // the guard flip waits until 2-4 attempts have finished on the pre-state guard, so the
                    // payers and the reader run once before the dependent payer is invalidated
                    s.holds.push(Hold { role: role::WORKER, nth_thread: 255, at: pt::EXEC_START, arg: Some(role_pos[0] as u16), nth: 0, until: Until::EventOrSteps(2, 2 + gaps[6], 2500) });
                    sc.grevm.concurrency = sc.grevm.concurrency.max(3);
                }
            }
            sc.grevm.force_sequential = false;
            sc.grevm.min_parallel_txs = 0;
            sc
        })
        .boxed()
}

// ---------------------------------------------------------------------------------------------
// Re-delegation race template (C09): an account's EIP-7702 delegation is set, re-pointed and
// possibly cleared / set again by consecutive transactions, and later transactions call into the
// account, inspect its code and send from it, while schedules pause a publishing worker between
// the account's Basic and Code versions.
// ---------------------------------------------------------------------------------------------

pub fn redelegate_race_scenario(g: &GenCfg) -> BoxedStrategy<Scenario> {
    let mut g2 = g.clone();
    g2.chain_pm = 0;
    g2.fund_pm = 0;
    g2.min_txs = 4;
    g2.max_txs = g.max_txs.max(7);
    g2.specs = vec![(3, 12), (2, 13)];
    g2.w_7702 = 1;
    (scenario(&g2), proptest::collection::vec((0u8..4, 0u8..3, any::<bool>()), 2..5), proptest::collection::vec(0u8..4, 3..6), 0u8..3, proptest::collection::vec(0u8..4, 4))
        .prop_map(|(mut sc, auth_steps, probes, who, knobs)| {
            if sc.world.eoas.len() < 3 || sc.txs.len() < 4 {
                return sc;
            }
            let a = (who as usize % sc.world.eoas.len().min(3)) as u8; // the re-delegated account
            // two distinguishable delegate targets
            let x = ContractDef { balance: Bal::Zero, storage: vec![], code: Code::Routines(vec![vec![Stmt::SStore(0, Expr::Add(Box::new(Expr::SLoad(0)), Box::new(Expr::Const(1))))], vec![Stmt::Return(Expr::Const(11))]]) };
            let y = ContractDef { balance: Bal::Zero, storage: vec![], code: Code::Routines(vec![vec![Stmt::SStore(1, Expr::Add(Box::new(Expr::SLoad(1)), Box::new(Expr::Const(2))))], vec![Stmt::Return(Expr::Const(22))]]) };
            let inspector = ContractDef {
                balance: Bal::Zero,
                storage: vec![],
                code: Code::Routines(vec![
                    vec![Stmt::SStore(0, Expr::ExtCodeHash(AddrRef::Eoa(a))), Stmt::SStore(1, Expr::ExtCodeSize(AddrRef::Eoa(a)))],
                    vec![Stmt::SStore(2, Expr::ExtCodeCopyWord(AddrRef::Eoa(a)))],
                    vec![Stmt::Call { kind: CallKind::Call, target: AddrRef::Eoa(a), value: 0, sel: 1, arg: None, small_gas: false, store: Some(3) }],
                ]),
            };
            sc.world.contracts = vec![x, y, inspector];
            for e in sc.world.eoas.iter_mut() {
                e.balance = Bal::Ether(10);
                e.nonce = e.nonce.min(100);
                e.delegate = None;
            }
            if knobs[0] == 0 {
                sc.world.eoas[a as usize].delegate = Some(AddrRef::Con(0));
            }
            let ne = sc.world.eoas.len() as u8;
            let n = sc.txs.len();
            let mut pos = 0usize;
            let mut auth_pos = Vec::new();
            // authorisation transactions (sponsored by someone else or self-sponsored)
            for (k, (target, sponsor, wrong)) in auth_steps.iter().enumerate() {
                if pos >= n {
                    break;
                }
                let sponsor = if *sponsor == 0 { a } else { (a + *sponsor) % ne };
                let target = match target {
                    0 => Some(AddrRef::Con(0)),
                    1 => Some(AddrRef::Con(1)),
                    2 => None, // clear
                    _ => Some(AddrRef::Con((k % 2) as u8)),
                };
                sc.txs[pos] = TxDef {
                    sender: sponsor,
                    to: TxTo::Call(AddrRef::Eoa(sponsor)),
                    tx_type: 4,
                    prio: Some(1),
                    price_delta: 1,
                    gas: GasDef::Limit(120_000),
                    auths: vec![AuthDef { authority: Some(a), target, nonce: if *wrong && k > 0 { AuthNonce::Wrong } else { AuthNonce::Correct }, chain: (k % 2) as u8 }],
                    ..TxDef::default()
                };
                auth_pos.push(pos);
                pos += 1 + (knobs[1] as usize % 2) * (k % 2);
            }
            // probes: call the account, inspect it, send from it
            let mut probe_pos = Vec::new();
            for (k, p) in probes.iter().enumerate() {
                if pos >= n {
                    break;
                }
                sc.txs[pos] = match p {
                    0 => TxDef { sender: (a + 1) % ne, to: TxTo::Call(AddrRef::Eoa(a)), sel: 0, gas: GasDef::Limit(120_000), price_delta: 1, tx_type: 0, ..TxDef::default() },
                    1 => TxDef { sender: (a + 2) % ne, to: TxTo::Call(AddrRef::Con(2)), sel: (k % 3) as u8, gas: GasDef::Limit(400_000), price_delta: 1, tx_type: 0, ..TxDef::default() },
                    2 => TxDef { sender: a, to: TxTo::Call(AddrRef::Absent(1)), value: ValueDef::Wei(5), gas: GasDef::Limit(60_000), price_delta: 1, tx_type: 0, ..TxDef::default() },
                    _ => TxDef { sender: a, to: TxTo::Call(AddrRef::Eoa(a)), sel: 0, gas: GasDef::Limit(120_000), price_delta: 1, tx_type: 2, prio: Some(1), ..TxDef::default() },
                };
                probe_pos.push(pos);
                pos += 1;
            }
            for (i, t) in sc.txs.iter_mut().enumerate() {
                if !auth_pos.contains(&i) && t.tx_type == 4 {
                    t.tx_type = 0;
                    t.auths.clear();
                }
            }
            // pause a publishing worker inside the window between Basic and Code of a re-pointing tx
            if knobs[2] != 0 && auth_pos.len() >= 2 {
                if let Some(s) = sc.schedule.as_mut() {
                    s.holds.clear();
                    let victim = auth_pos[1 + (knobs[3] as usize) % (auth_pos.len() - 1)];
                    for nth in 0..3u8 {
                        s.holds.push(Hold { role: role::WORKER, nth_thread: 255, at: pt::DB_PUBLISH, arg: Some(victim as u16), nth: 1 + nth, until: Until::EventOrSteps(2, 0, 60 + 40 * knobs[2] as u32) });
                    }
                    sc.grevm.concurrency = sc.grevm.concurrency.max(3);
                }
            }
            sc.grevm.force_sequential = false;
            sc.disable_nonce_check = false;
            sc
        })
        .boxed()
}

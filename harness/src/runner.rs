//! Runs grevm on a materialised scenario, under the deterministic controller or free-running.

use crate::dsched::{controller, Ev, LoggedEv, RunStats, Schedule, Verdict};
use crate::reference::{err_sig, read_back, AccountRead};
use crate::scenario::*;
use crate::world::*;
use grevm::{
    DelegatedSafetyConfig, DynParallelPrecompile, GrevmConfig, ParallelState, ParallelTakeBundle, Scheduler,
    TxExecutionOutcome,
};
use revm::context::TxEnv;
use revm::database::states::bundle_state::BundleRetention;
use revm::database::BundleState;
use revm::primitives::Address;
use std::collections::HashMap;
use std::panic::{catch_unwind, AssertUnwindSafe};
use std::sync::Arc;

pub struct GrevmOutput {
    pub result: Result<(), (usize, String)>,
    pub panic: Option<String>,
    pub outcomes: Vec<TxExecutionOutcome>,
    pub bundle: BundleState,
    pub readback: Option<Vec<AccountRead>>,
    pub verdict: Verdict,
    pub stats: RunStats,
    pub log: Vec<LoggedEv>,
    pub event_counts: HashMap<u32, u64>,
    pub db_fired: usize,
    pub wall_us: u128,
    pub trace: Option<Vec<(u16, u32)>>,
}

pub fn grevm_config(g: &GrevmCfg) -> GrevmConfig {
    GrevmConfig {
        concurrency_level: g.concurrency.max(1) as usize,
        force_sequential: g.force_sequential,
        min_parallel_txs: g.min_parallel_txs as usize,
        delegated_safety: DelegatedSafetyConfig {
            forbid_delegated_create: g.forbid_delegated_create,
            reserve_delegated_balance: g.reserve_delegated_balance,
        },
    }
}

/// Does this configuration take the parallel path for a block of `n` transactions?
pub fn takes_parallel_path(g: &GrevmCfg, n: usize) -> bool {
    !(g.force_sequential || n < g.min_parallel_txs as usize || matches!(g.entry, Entry::FallbackSequential))
}

pub type Precompiles = Option<Arc<Vec<(Address, DynParallelPrecompile)>>>;

pub fn run_grevm(
    m: &Materialised,
    db: MemDb,
    txs: &[TxEnv],
    g: &GrevmCfg,
    schedule: Option<&Schedule>,
    precompiles: Precompiles,
    want_readback: bool,
) -> GrevmOutput {
    let ctl = controller();
    let db = Arc::new(db);
    let state = ParallelState::new(db.clone(), true, false);
    let scheduler = Scheduler::new_with_runtime_config(
        m.cfg.clone(),
        m.block.clone(),
        Arc::new(txs.to_vec()),
        state,
        precompiles,
        grevm_config(g),
    );
    let t0 = std::time::Instant::now();
    // SAFETY of the raw pointer: the callback is only invoked while `scheduler` is alive (the run
    // ends before it is consumed below).
    let sched_ptr = &scheduler as *const Scheduler<Arc<MemDb>> as usize;
    match schedule {
        Some(s) => {
            let cb: Box<dyn Fn() + Send> = Box::new(move || {
                let s = unsafe { &*(sched_ptr as *const Scheduler<Arc<MemDb>>) };
                s.verif_cancel();
            });
            ctl.begin_run(s, std::env::var("VERIF_TRACE").is_ok(), Some(cb));
        }
        None => ctl.begin_free_run(),
    }
    let r = catch_unwind(AssertUnwindSafe(|| match g.entry {
        Entry::Execute => scheduler.execute(),
        Entry::ParallelExecute(k) => scheduler.parallel_execute(Some(k.max(1) as usize)),
        Entry::FallbackSequential => scheduler.fallback_sequential(),
    }));
    let out = ctl.end_run();
    let wall_us = t0.elapsed().as_micros();
    let (result, panic) = match r {
        Ok(Ok(())) => (Ok(()), None),
        Ok(Err(e)) => (Err((e.txid, err_sig(&e.error))), None),
        Err(p) => {
            let msg = p
                .downcast_ref::<String>()
                .cloned()
                .or_else(|| p.downcast_ref::<&str>().map(|s| s.to_string()))
                .unwrap_or_else(|| "<non-string panic>".into());
            (Err((usize::MAX, "panic".into())), Some(msg))
        }
    };
    let (outcomes, mut state) = scheduler.take_result_and_state();
    let bundle = state.parallel_take_bundle(BundleRetention::Reverts);
    let readback = if want_readback { read_back(&mut state, &m.universe).ok() } else { None };
    GrevmOutput {
        result,
        panic,
        outcomes,
        bundle,
        readback,
        verdict: out.verdict,
        stats: out.stats,
        log: out.log,
        event_counts: out.event_counts,
        db_fired: db.fired_count(),
        wall_us,
        trace: out.trace,
    }
}

/// Classification of one run from its hook events (DESIGN.md 3.3, last paragraph).
#[derive(Clone, Debug, Default)]
pub struct RunClass {
    pub attempts: u64,
    pub reexecutions: u64,
    pub validation_conflicts: u64,
    pub estimate_blocked: u64,
    pub rewinds: u64,
    pub rewinds_effective: u64,
    pub new_write_rewinds: u64,
    pub finality_rejected: u64,
    pub parks: u64,
    pub unparks: u64,
    pub dep_adds: u64,
    pub dep_removes: u64,
    pub handoffs: u64,
    pub key_txs: u64,
    pub aborts: u64,
    pub fallbacks: u64,
    pub seq_commits: u64,
    pub commits: u64,
    pub commits_inc_ge2: u64,
    pub speculative_txs: u64,
    pub timer_fired: u64,
    /// rewinds that covered a transaction whose latest validation had succeeded (stale Unconfirmed)
    pub stale_unconfirmed_rewinds: u64,
    /// transactions with an erroring attempt between two successful ones
    pub err_between_successes: u64,
    /// largest incarnation number any transaction reached
    pub max_incarnation: u64,
}

pub fn classify(log: &[LoggedEv]) -> RunClass {
    let mut c = RunClass::default();
    let mut last_inc: HashMap<usize, usize> = HashMap::new();
    let mut seen: std::collections::HashSet<usize> = Default::default();
    let mut unconfirmed: std::collections::HashSet<usize> = Default::default();
    for l in log {
        match &l.ev {
            Ev::ValidationEnd { txid, conflict: false, .. } => {
                unconfirmed.insert(*txid);
            }
            Ev::Finality { txid, .. } => {
                unconfirmed.remove(txid);
            }
            _ => {}
        }
        match &l.ev {
            Ev::AttemptStart { txid, incarnation, .. } => {
                unconfirmed.remove(txid);
                c.attempts += 1;
                seen.insert(*txid);
                if *incarnation >= 2 {
                    c.reexecutions += 1;
                }
                last_inc.insert(*txid, *incarnation);
                c.max_incarnation = c.max_incarnation.max(*incarnation as u64);
            }
            Ev::AttemptEnd { kind, new_write_locations, incarnation, .. } => {
                if *kind == 1 || *kind == 2 {
                    c.estimate_blocked += 1;
                }
                if *new_write_locations && *incarnation >= 2 {
                    c.new_write_rewinds += 1;
                }
            }
            Ev::ValidationEnd { conflict, .. } => {
                if *conflict {
                    c.validation_conflicts += 1;
                }
            }
            Ev::Rewind { index, previous, .. } => {
                c.rewinds += 1;
                if previous > index {
                    c.rewinds_effective += 1;
                    if (*index..*previous).any(|k| unconfirmed.contains(&k)) {
                        c.stale_unconfirmed_rewinds += 1;
                    }
                }
            }
            Ev::FinalityRejected { .. } => c.finality_rejected += 1,
            Ev::Parked { .. } => c.parks += 1,
            Ev::Unparked { by_token: false, .. } => c.unparks += 1,
            Ev::DepAdd { dep, .. } => {
                if dep.is_some() {
                    c.dep_adds += 1;
                }
            }
            Ev::DepRemove { handoff, .. } => {
                c.dep_removes += 1;
                if handoff.is_some() {
                    c.handoffs += 1;
                }
            }
            Ev::KeyTx { .. } => c.key_txs += 1,
            Ev::Abort { kind, .. } => {
                c.aborts += 1;
                if *kind == 3 {
                    c.fallbacks += 1;
                }
            }
            Ev::SeqCommit { .. } => c.seq_commits += 1,
            Ev::Commit { txid, .. } => {
                c.commits += 1;
                if last_inc.get(txid).copied().unwrap_or(0) >= 2 {
                    c.commits_inc_ge2 += 1;
                }
            }
            Ev::TimerFired => c.timer_fired += 1,
            _ => {}
        }
    }
    c.speculative_txs = seen.len() as u64;
    {
        // per transaction: sequence of attempt kinds
        let mut seqs: HashMap<usize, Vec<u32>> = HashMap::new();
        for l in log {
            if let Ev::AttemptEnd { txid, kind, .. } = &l.ev {
                seqs.entry(*txid).or_default().push(*kind);
            }
        }
        for (_, s) in seqs {
            let first_ok = s.iter().position(|k| *k == 0);
            if let Some(f) = first_ok {
                if let Some(e) = s[f..].iter().position(|k| *k >= 3) {
                    if s[f + e..].iter().any(|k| *k == 0) {
                        c.err_between_successes += 1;
                    }
                }
            }
        }
    }
    c
}

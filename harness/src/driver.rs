//! Driver: tiers, worker processes, proptest runners, shrinking, replay files, evidence.

use proptest::strategy::Strategy;
use proptest::test_runner::{Config, RngAlgorithm, TestCaseError, TestError, TestRng, TestRunner};
use serde::{de::DeserializeOwned, Deserialize, Serialize};
use serde_json::{json, Value};
use std::cell::RefCell;
use std::collections::{BTreeMap, BTreeSet};
use std::hash::{Hash, Hasher};
use std::time::Instant;

pub const VERIF_DIR: &str = "/verif";

/// Where evidence and fresh replay files are written. Always /verif for the registered commands;
/// `VERIF_OUT_DIR` lets a scratch evaluation (a mutant built from a scratch copy of the repository,
/// bin/mutant-eval2) run beside a registered check without overwriting its evidence.
pub fn out_dir() -> String {
    std::env::var("VERIF_OUT_DIR").unwrap_or_else(|_| VERIF_DIR.to_string())
}

#[derive(Clone, Debug, Default)]
pub struct CaseEval {
    pub failure: Option<(String, String)>,
    pub inconclusive: Option<String>,
    pub excluded: Option<String>,
    pub nontrivial: bool,
    pub hist: BTreeMap<String, u64>,
    /// additional evaluations performed inside this case (inner enumerations)
    pub extra_evals: u64,
    /// hashes of distinct non-trivial inner cases
    pub nontrivial_hashes: Vec<u64>,
    /// concrete failing case to store in the replay file instead of the generated value
    pub replay_override: Option<Value>,
    pub sample: Option<Value>,
    /// hits of findings listed as `known` in known_findings.json: (signature, what, replay case)
    pub known_hits: Vec<(String, Value)>,
}

#[derive(Clone, Debug, Serialize, Deserialize, Default)]
pub struct FailureReport {
    pub clause: String,
    pub detail: String,
    pub replay: String,
    /// signature used to match known findings
    pub signature: String,
}

#[derive(Clone, Debug, Serialize, Deserialize, Default)]
pub struct WorkerReport {
    pub evaluations: u64,
    pub nontrivial_hashes: Vec<u64>,
    pub hist: BTreeMap<String, u64>,
    pub excluded: BTreeMap<String, u64>,
    pub samples: Vec<Value>,
    pub failures: Vec<FailureReport>,
    pub inconclusive: u64,
    pub inconclusive_samples: Vec<String>,
    pub wall_s: f64,
    pub exhaustive: bool,
    /// signature -> (count, one replay path)
    #[serde(default)]
    pub known_hits: BTreeMap<String, (u64, String)>,
    /// bounded-exhaustive slice (component checks): scenarios, schedules, exhausted
    #[serde(default)]
    pub exhaustive_slice: Option<(u64, u64, bool)>,
}

#[derive(Clone, Debug)]
pub struct WorkerArgs {
    pub id: String,
    pub tier: String,
    pub index: u32,
    pub total: u32,
    pub seed: u64,
    pub cases: u32,
    pub shrink_iters: u32,
}

pub fn hash_str(s: &str) -> u64 {
    let mut h = std::collections::hash_map::DefaultHasher::new();
    s.hash(&mut h);
    h.finish()
}

pub fn worker_rng(args: &WorkerArgs, stream: u64) -> TestRng {
    let mut seed = [0u8; 32];
    let a = args.seed.wrapping_mul(0x9E3779B97F4A7C15) ^ hash_str(&args.id);
    seed[0..8].copy_from_slice(&a.to_le_bytes());
    seed[8..16].copy_from_slice(&(args.index as u64).to_le_bytes());
    seed[16..24].copy_from_slice(&stream.to_le_bytes());
    seed[24..32].copy_from_slice(&0xC0FFEEu64.to_le_bytes());
    TestRng::from_seed(RngAlgorithm::ChaCha, &seed)
}

pub fn write_replay(id: &str, case: &Value, clause: &str, detail: &str) -> String {
    let body = json!({ "property": id, "clause": clause, "detail": detail, "case": case });
    let text = serde_json::to_string_pretty(&body).unwrap();
    let dir = format!("{}/replays", out_dir());
    let _ = std::fs::create_dir_all(&dir);
    let path = format!("{dir}/{id}-{:016x}.json", hash_str(&text));
    let _ = std::fs::write(&path, text);
    path
}

/// Run `cases` generated cases through `eval`; on failure shrink and write a replay file.
pub fn prop_worker<S, F>(args: &WorkerArgs, strategy: S, stream: u64, eval: F, report: &mut WorkerReport)
where
    S: Strategy,
    S::Value: Serialize + Clone + std::fmt::Debug,
    F: Fn(&S::Value) -> CaseEval,
{
    let t0 = Instant::now();
    let config = Config {
        cases: args.cases,
        failure_persistence: None,
        max_shrink_iters: std::env::var("VERIF_SHRINK_ITERS").ok().and_then(|s| s.parse().ok()).unwrap_or(args.shrink_iters),
        max_shrink_time: 0,
        max_global_rejects: 10,
        ..Config::default()
    };
    let mut runner = TestRunner::new_with_rng(config, worker_rng(args, stream));
    struct Acc {
        evaluations: u64,
        hashes: BTreeSet<u64>,
        hist: BTreeMap<String, u64>,
        excluded: BTreeMap<String, u64>,
        samples: Vec<Value>,
        nt_samples: usize,
        inconclusive: u64,
        inc_samples: Vec<String>,
        failed: bool,
        last_failure: Option<(String, String)>,
        known: BTreeMap<String, (u64, Option<Value>)>,
    }
    let acc = RefCell::new(Acc {
        evaluations: 0,
        hashes: BTreeSet::new(),
        hist: BTreeMap::new(),
        excluded: BTreeMap::new(),
        samples: vec![],
        nt_samples: 0,
        inconclusive: 0,
        inc_samples: vec![],
        failed: false,
        last_failure: None,
        known: BTreeMap::new(),
    });
    let result = runner.run(&strategy, |case| {
        let ev = eval(&case);
        let mut a = acc.borrow_mut();
        if !a.failed {
            a.evaluations += 1 + ev.extra_evals;
            a.hashes.extend(ev.nontrivial_hashes.iter().copied());
            for (sig, case) in &ev.known_hits {
                let e = a.known.entry(sig.clone()).or_insert((0, None));
                e.0 += 1;
                if e.1.is_none() {
                    e.1 = Some(case.clone());
                }
            }
            if let Some(smp) = &ev.sample {
                if a.samples.len() < 3 {
                    a.samples.push(smp.clone());
                }
            }
            for (k, v) in &ev.hist {
                *a.hist.entry(k.clone()).or_insert(0) += v;
            }
            if let Some(x) = &ev.excluded {
                *a.excluded.entry(x.clone()).or_insert(0) += 1;
            }
            if let Some(x) = &ev.inconclusive {
                a.inconclusive += 1;
                if a.inc_samples.len() < 3 {
                    a.inc_samples.push(x.clone());
                }
            }
            if ev.nontrivial && ev.failure.is_none() {
                let js = serde_json::to_string(&case).unwrap();
                a.hashes.insert(hash_str(&js));
                if a.nt_samples < 2 {
                    a.nt_samples += 1;
                    a.samples.push(serde_json::to_value(&case).unwrap());
                }
            } else if a.samples.is_empty() && ev.failure.is_none() {
                a.samples.push(serde_json::to_value(&case).unwrap());
            }
        }
        if let Some((clause, detail)) = ev.failure {
            a.failed = true;
            a.last_failure = Some((clause.clone(), detail.clone()));
            return Err(TestCaseError::fail(format!("{clause}: {detail}")));
        }
        Ok(())
    });
    let a = acc.into_inner();
    report.evaluations += a.evaluations;
    report.nontrivial_hashes.extend(a.hashes.iter().copied());
    for (k, v) in a.hist {
        *report.hist.entry(k).or_insert(0) += v;
    }
    for (k, v) in a.excluded {
        *report.excluded.entry(k).or_insert(0) += v;
    }
    report.samples.extend(a.samples.into_iter().take(3));
    report.inconclusive += a.inconclusive;
    report.inconclusive_samples.extend(a.inc_samples);
    for (sig, (n, case)) in a.known {
        let e = report.known_hits.entry(sig.clone()).or_insert((0, String::new()));
        e.0 += n;
        if e.1.is_empty() {
            if let Some(c) = case {
                e.1 = write_replay(&args.id, &c, "known-finding", &sig);
            }
        }
    }
    if let Err(e) = result {
        match e {
            TestError::Fail(_, value) => {
                // re-evaluate the minimal case to get its own clause/detail
                let ev = eval(&value);
                let (clause, detail) = ev.failure.clone().or(a.last_failure).unwrap_or(("unknown".into(), "shrunk case no longer fails".into()));
                let v = ev.replay_override.clone().unwrap_or_else(|| serde_json::to_value(&value).unwrap());
                let path = write_replay(&args.id, &v, &clause, &detail);
                report.failures.push(FailureReport { signature: clause.clone(), clause, detail, replay: path });
            }
            TestError::Abort(reason) => {
                report.inconclusive += 1;
                report.inconclusive_samples.push(format!("proptest abort: {reason}"));
            }
        }
    }
    report.wall_s += t0.elapsed().as_secs_f64();
}

pub fn load_replay<T: DeserializeOwned>(path: &str) -> Result<(String, T), String> {
    let text = std::fs::read_to_string(path).map_err(|e| format!("{path}: {e}"))?;
    let v: Value = serde_json::from_str(&text).map_err(|e| format!("{path}: {e}"))?;
    let id = v["property"].as_str().unwrap_or("").to_string();
    let case: T = serde_json::from_value(v["case"].clone()).map_err(|e| format!("{path}: case: {e}"))?;
    Ok((id, case))
}

// ---------------------------------------------------------------------------------------------
// known findings
// ---------------------------------------------------------------------------------------------

#[derive(Clone, Debug, Deserialize)]
pub struct KnownFinding {
    pub property: String,
    /// "known" or "fixed"
    pub status: String,
    /// substring that must occur in "<clause>: <detail>"
    pub signature: String,
    pub what: String,
    #[serde(default)]
    pub commit: String,
}

/// Is a finding with this exact signature listed as `known` (not fixed) for the property?
pub fn is_known(property: &str, signature: &str) -> bool {
    static K: std::sync::OnceLock<Vec<KnownFinding>> = std::sync::OnceLock::new();
    K.get_or_init(load_known_findings).iter().any(|k| k.property == property && k.status == "known" && k.signature == signature)
}

pub fn load_known_findings() -> Vec<KnownFinding> {
    let p = format!("{VERIF_DIR}/known_findings.json");
    match std::fs::read_to_string(&p) {
        Ok(t) => serde_json::from_str::<Value>(&t)
            .ok()
            .and_then(|v| serde_json::from_value(v["findings"].clone()).ok())
            .unwrap_or_default(),
        Err(_) => vec![],
    }
}

// ---------------------------------------------------------------------------------------------
// parent: spawn workers, aggregate, evidence
// ---------------------------------------------------------------------------------------------

pub struct CheckMeta {
    pub id: &'static str,
    pub level: &'static str,
    pub rule: &'static str,
    pub bounds: &'static str,
    pub assumptions: Vec<&'static str>,
    pub quick_cases: u32,
    pub thorough_cases: u32,
    pub workers: u32,
}

pub fn run_parent(meta: &CheckMeta, tier: &str, seed: u64, regress_replays: usize) -> i32 {
    let t0 = Instant::now();
    let cases_total = if tier == "thorough" { meta.thorough_cases } else { meta.quick_cases };
    let cases_total = std::env::var("VERIF_CASES").ok().and_then(|s| s.parse().ok()).unwrap_or(cases_total);
    let workers = std::env::var("VERIF_WORKERS").ok().and_then(|s| s.parse().ok()).unwrap_or(meta.workers).max(1);
    let per = (cases_total + workers - 1) / workers;
    let exe = std::env::current_exe().expect("current exe");
    let mut children = Vec::new();
    for i in 0..workers {
        let child = std::process::Command::new(&exe)
            .args(["worker", meta.id, tier, &i.to_string(), &workers.to_string(), &seed.to_string(), &per.to_string()])
            .stdout(std::process::Stdio::piped())
            .stderr(std::process::Stdio::inherit())
            .spawn()
            .expect("spawn worker");
        children.push(child);
    }
    let mut agg = WorkerReport::default();
    let mut hashes: BTreeSet<u64> = BTreeSet::new();
    let mut infra_trouble = Vec::new();
    let mut all_exhaustive = true;
    for (i, c) in children.into_iter().enumerate() {
        let out = c.wait_with_output().expect("wait worker");
        let text = String::from_utf8_lossy(&out.stdout);
        let line = text.lines().rev().find(|l| l.starts_with("REPORT ")).map(|l| l[7..].to_string());
        match line.and_then(|l| serde_json::from_str::<WorkerReport>(&l).ok()) {
            Some(r) => {
                agg.evaluations += r.evaluations;
                hashes.extend(r.nontrivial_hashes.iter().copied());
                for (k, v) in r.hist {
                    *agg.hist.entry(k).or_insert(0) += v;
                }
                for (k, v) in r.excluded {
                    *agg.excluded.entry(k).or_insert(0) += v;
                }
                if agg.samples.len() < 5 {
                    agg.samples.extend(r.samples.into_iter().take(2));
                }
                agg.failures.extend(r.failures);
                for (sig, (n, path)) in r.known_hits {
                    let e = agg.known_hits.entry(sig).or_insert((0, String::new()));
                    e.0 += n;
                    if e.1.is_empty() {
                        e.1 = path;
                    }
                }
                if let Some(x) = r.exhaustive_slice {
                    agg.exhaustive_slice = Some(x);
                }
                agg.inconclusive += r.inconclusive;
                agg.inconclusive_samples.extend(r.inconclusive_samples.into_iter().take(2));
                all_exhaustive &= r.exhaustive;
            }
            None => {
                infra_trouble.push(format!("worker {i} produced no report (status {:?})", out.status));
            }
        }
    }
    // known findings
    let known = load_known_findings();
    let mut violations = Vec::new();
    let mut known_hits = Vec::new();
    for f in &agg.failures {
        let text = format!("{}: {}", f.clause, f.detail);
        if let Some(k) = known.iter().find(|k| k.property == meta.id && k.status == "known" && text.contains(&k.signature)) {
            known_hits.push((k.clone(), f.clone()));
        } else {
            violations.push(f.clone());
        }
    }
    let wall = t0.elapsed().as_secs_f64();
    let evidence = json!({
        "property_id": meta.id,
        "tier": if tier == "thorough" { "thorough" } else { "quick" },
        "seed": seed,
        "level": meta.level,
        "coverage": {
            "evaluations": agg.evaluations,
            "distinct_nontrivial": hashes.len(),
            "rule": meta.rule,
            "samples": agg.samples,
            "classes": agg.hist,
            "excluded_by_construction_or_rule": agg.excluded,
            "bounds": meta.bounds,
            "inconclusive_cases": agg.inconclusive,
            "inconclusive_samples": agg.inconclusive_samples.iter().take(4).collect::<Vec<_>>(),
            "exhaustive": all_exhaustive && agg.evaluations > 0 && meta.level == "model_checking",
            "worker_processes": workers,
            "exhaustive_slice": agg.exhaustive_slice.map(|(sc, n, done)| json!({"scenarios": sc, "schedules_enumerated": n, "every_schedule_of_every_scenario_enumerated": done, "note": "all interleavings (at hook granularity) of the tiny scenarios listed in DESIGN.md 4b; the rest of this run is sampled"})),
            "regression_replays_passed": regress_replays,
            "known_findings_hit": known_hits.iter().map(|(k, f)| json!({"what": k.what, "replay": f.replay})).chain(agg.known_hits.iter().map(|(sig, (n, path))| json!({"signature": sig, "hits": n, "replay": path}))).collect::<Vec<_>>(),
        },
        "assumptions": meta.assumptions,
        "wall_s": wall,
        "violations": violations.len(),
    });
    let dir = format!("{}/evidence", out_dir());
    let _ = std::fs::create_dir_all(&dir);
    let _ = std::fs::write(format!("{dir}/{}.json", meta.id), serde_json::to_string_pretty(&evidence).unwrap());
    println!(
        "check {} tier={} seed={} evaluations={} distinct_nontrivial={} inconclusive={} wall={:.1}s",
        meta.id,
        tier,
        seed,
        agg.evaluations,
        hashes.len(),
        agg.inconclusive,
        wall
    );
    for (k, _f) in &known_hits {
        println!("KNOWN-FINDING: property={} {}", meta.id, k.what);
    }
    for (sig, (n, path)) in &agg.known_hits {
        let what = known.iter().find(|k| k.property == meta.id && &k.signature == sig).map(|k| k.what.clone()).unwrap_or_else(|| sig.clone());
        println!("KNOWN-FINDING: property={} {} [{} hit(s) this run, e.g. replay={}]", meta.id, what, n, path);
    }
    if !violations.is_empty() {
        for v in &violations {
            println!("  {}: {}", v.clause, v.detail);
            println!("VIOLATION property={} replay={}", meta.id, v.replay);
        }
        return 1;
    }
    if !infra_trouble.is_empty() {
        for t in &infra_trouble {
            eprintln!("INCONCLUSIVE: {t}");
        }
        return 2;
    }
    if agg.evaluations == 0 || agg.inconclusive * 20 > agg.evaluations.max(1) {
        eprintln!("INCONCLUSIVE: {} of {} cases were inconclusive", agg.inconclusive, agg.evaluations);
        return 2;
    }
    0
}

//! Engine E3: component-level concurrency checks on the real (wrapped) scheduler components,
//! driven by harness threads under the deterministic controller.
//! C15 cursors / frontier, C16 TxDependency, C17 WaitSlot.

use crate::driver::CaseEval;
use crate::dsched::{controller, Ev, LoggedEv, Schedule, Verdict, ROLE_HARNESS};
use grevm::verif::VerifHooks;
use grevm::verif_api::{VContext, VTxDependency, VWaitSlot};
use parking_lot::Mutex as PlMutex;
use serde::{Deserialize, Serialize};
use std::sync::atomic::{AtomicBool, AtomicUsize, Ordering};
use std::sync::Arc;
use std::time::Duration;

// note codes
const N_CLAIM_START: u32 = 100;
const N_CLAIM: u32 = 101;
const N_CLAIM_NONE: u32 = 102;
const N_EXEC_START: u32 = 103;
const N_EXEC_DONE: u32 = 104;
const N_FRONTIER: u32 = 105;
const N_REWIND_START: u32 = 106;
const N_FINISHED: u32 = 107;
const N_COMMITTED: u32 = 108;
const N_VTS: u32 = 109;
/// harness-side switch point between a validation claim and its timestamp / between the timestamp and its publication
const HP_VALIDATE: u32 = 900;

/// Run `threads` closures as controlled harness threads; returns the controller output.
fn run_threads<'a>(schedule: &Schedule, abort: Arc<AtomicBool>, threads: Vec<Box<dyn FnOnce() + Send + 'a>>) -> crate::dsched::RunOutput {
    run_threads_with_setup(schedule, abort, || {}, threads)
}

/// `setup` runs on the calling thread after the run has begun (alone, holding the baton).
fn run_threads_with_setup<'a>(schedule: &Schedule, abort: Arc<AtomicBool>, setup: impl FnOnce(), threads: Vec<Box<dyn FnOnce() + Send + 'a>>) -> crate::dsched::RunOutput {
    let ctl = controller();
    let ab = abort.clone();
    ctl.begin_run(schedule, false, Some(Box::new(move || ab.store(true, Ordering::SeqCst))));
    setup();
    ctl.expect_threads(threads.len());
    std::thread::scope(|scope| {
        let mut hs = Vec::new();
        for (i, f) in threads.into_iter().enumerate() {
            hs.push(scope.spawn(move || {
                ctl.register_thread(ROLE_HARNESS + 1 + i as u32);
                f();
                ctl.unregister_thread();
            }));
        }
        ctl.enter_external();
        for h in hs {
            let _ = h.join();
        }
        ctl.leave_external();
    });
    let out = ctl.end_run();
    LAST_WIDTHS.with(|w| *w.borrow_mut() = out.stats.decision_widths.clone());
    out
}

fn verdict_failure(v: &Verdict) -> Result<Option<String>, (String, String)> {
    match v {
        Verdict::Completed => Ok(None),
        Verdict::Inconclusive { detail } => Ok(Some(detail.clone())),
        Verdict::Deadlock { detail } => Err(("termination/deadlock".into(), detail.clone())),
        Verdict::TimerDependent { fired } => Err(("termination/timer-dependent-progress".into(), format!("the stall timer had to fire {fired} time(s)"))),
    }
}

// =============================================================================================
// C15
// =============================================================================================

#[derive(Clone, Debug, Serialize, Deserialize)]
pub enum CursorOp {
    /// claim validation indices until None, at most k times
    Claim(u8),
    Rewind(u8),
    Publish(u8),
    ReadFrontier,
    /// what Scheduler::validate does with the context: claim one index, take the logical timestamp
    /// (before "scanning"), then record it as the unconfirmed timestamp of the index
    Validate,
}

#[derive(Clone, Debug, Serialize, Deserialize)]
pub struct C15Case {
    pub n: u8,
    /// operations performed by the harness alone before the threads start
    #[serde(default)]
    pub setup: Vec<CursorOp>,
    pub programs: Vec<Vec<CursorOp>>,
    pub schedule: Schedule,
}

fn c15_op(ctx: &VContext, n: usize, op: &CursorOp) {
    let ctl = controller();
    match op {
        CursorOp::Claim(k) => {
            for _ in 0..*k {
                ctl.note(N_CLAIM_START, 0, 0);
                match ctx.next_validation_idx(n) {
                    Some(c) => ctl.note(N_CLAIM, c, n),
                    None => {
                        ctl.note(N_CLAIM_NONE, 0, 0);
                        break;
                    }
                }
            }
        }
        CursorOp::Rewind(j) => {
            ctl.note(N_REWIND_START, *j as usize % n, 0);
            ctx.rewind_validation_to(*j as usize % n);
        }
        CursorOp::Publish(i) => {
            let i = *i as usize % n;
            ctl.note(N_EXEC_START, i, 0);
            ctx.executed(i);
            ctl.note(N_EXEC_DONE, i, 0);
        }
        CursorOp::ReadFrontier => {
            let f = ctx.execution_frontier();
            ctl.note(N_FRONTIER, f, 0);
        }
        CursorOp::Validate => {
            ctl.note(N_CLAIM_START, 0, 0);
            match ctx.next_validation_idx(n) {
                Some(c) => {
                    ctl.note(N_CLAIM, c, n);
                    ctl.harness_point(HP_VALIDATE);
                    let ts = ctx.logical_timestamp();
                    ctl.note(N_VTS, c, ts);
                    ctl.harness_point(HP_VALIDATE);
                    ctx.unconfirmed(c, ts);
                }
                None => ctl.note(N_CLAIM_NONE, 0, 0),
            }
        }
    }
}

pub fn eval_c15(case: &C15Case) -> CaseEval {
    let mut ev = CaseEval::default();
    let n = case.n.clamp(1, 8) as usize;
    let ctx = VContext::new(n);
    let ctl = controller();
    let abort = Arc::new(AtomicBool::new(false));
    let threads: Vec<Box<dyn FnOnce() + Send>> = case
        .programs
        .iter()
        .map(|prog| {
            let ctx = &ctx;
            let abort = abort.clone();
            let f: Box<dyn FnOnce() + Send> = Box::new(move || {
                for op in prog {
                    if abort.load(Ordering::SeqCst) {
                        return;
                    }
                    c15_op(ctx, n, op);
                }
            });
            f
        })
        .collect();
    let setup_ops = case.setup.clone();
    let out = run_threads_with_setup(&case.schedule, abort, || {
        for op in &setup_ops {
            c15_op(&ctx, n, op);
        }
    }, threads);
    match verdict_failure(&out.verdict) {
        Err(f) => {
            ev.failure = Some(f);
            return ev;
        }
        Ok(Some(i)) => {
            ev.inconclusive = Some(i);
            return ev;
        }
        Ok(None) => {}
    }
    // quiescence: publish the rest, check the frontier, drain the cursor (single-threaded, logged)
    let mut log: Vec<Ev> = out.log.iter().map(|l| l.ev.clone()).collect();
    let published_before: std::collections::BTreeSet<usize> =
        log.iter().filter_map(|e| if let Ev::Note { code: N_EXEC_DONE, a, .. } = e { Some(*a) } else { None }).collect();
    let first_unpublished = (0..n).find(|i| !published_before.contains(i)).unwrap_or(n);
    let f = ctx.execution_frontier();
    if f != first_unpublished {
        ev.failure = Some(("frontier-quiescence".into(), format!("all publishers finished: frontier = {f} but the first unpublished index is {first_unpublished} (published: {published_before:?})")));
        return ev;
    }
    for i in 0..n {
        if !published_before.contains(&i) {
            log.push(Ev::Note { code: N_EXEC_START, a: i, b: 0 });
            ctx.executed(i);
            log.push(Ev::Note { code: N_EXEC_DONE, a: i, b: 0 });
        }
    }
    if ctx.execution_frontier() != n {
        ev.failure = Some(("frontier-quiescence".into(), format!("everything published but frontier = {}", ctx.execution_frontier())));
        return ev;
    }
    while let Some(c) = ctx.next_validation_idx(n) {
        log.push(Ev::Note { code: N_CLAIM, a: c, b: n });
    }
    // --- invariants over the serialised history
    let mut exec_started = vec![false; n];
    let mut overlap = false;
    let mut claims_in_flight = 0i32;
    let mut out_of_order = false;
    let mut max_published: Option<usize> = None;
    for (pos, e) in log.iter().enumerate() {
        match e {
            Ev::Note { code: N_EXEC_START, a, .. } => exec_started[*a] = true,
            Ev::Note { code: N_EXEC_DONE, a, .. } => {
                if let Some(m) = max_published {
                    if *a < m {
                        out_of_order = true;
                    }
                }
                max_published = Some(max_published.map_or(*a, |m| m.max(*a)));
            }
            Ev::Note { code: N_CLAIM_START, .. } => claims_in_flight += 1,
            Ev::Note { code: N_CLAIM_NONE, .. } => claims_in_flight -= 1,
            Ev::Note { code: N_CLAIM, a: c, b: limit } => {
                claims_in_flight -= 1;
                if c >= limit {
                    ev.failure = Some(("claim-limit".into(), format!("index {c} was handed out with limit {limit}")));
                    return ev;
                }
                if let Some(i) = (0..=*c).find(|i| !exec_started[*i]) {
                    ev.failure = Some(("claim-limit".into(), format!("index {c} was handed out for validation but transaction {i} has not completed an execution (the limit is the execution frontier)")));
                    return ev;
                }
            }
            Ev::Note { code: N_FRONTIER, a: f, .. } => {
                if let Some(i) = (0..*f).find(|i| !exec_started[*i]) {
                    ev.failure = Some(("frontier".into(), format!("frontier {f} observed but transaction {i} has not completed an execution")));
                    return ev;
                }
            }
            Ev::Rewind { index, previous, .. } => {
                if claims_in_flight > 0 {
                    overlap = true;
                }
                if previous > index {
                    for x in *index..*previous {
                        let again = log[pos + 1..].iter().any(|e| matches!(e, Ev::Note { code: N_CLAIM, a, .. } if *a == x));
                        if !again {
                            ev.failure = Some(("rewind-reissue".into(), format!("rewind to {index} returned previous position {previous}, but index {x} was never offered for validation again afterwards")));
                            return ev;
                        }
                    }
                }
            }
            _ => {}
        }
    }
    // --- last sentence of the property, at the level of the context: a validation whose timestamp
    // was taken before a rewind covering its index was even invoked must be ineligible for finality
    // once that rewind has returned. Eligibility is the production rule of lock_finality_candidate:
    // unconfirmed_ts > max(lower_timestamp(0..=k)); lower timestamps only grow, so reading them at
    // quiescence is the most permissive moment for the code.
    let mut stale_pairs = 0u64;
    for (pos, e) in log.iter().enumerate() {
        let Ev::Note { code: N_REWIND_START, a: j, .. } = e else { continue };
        for e2 in &log[..pos] {
            let Ev::Note { code: N_VTS, a: k, b: ts } = e2 else { continue };
            if k < j {
                continue;
            }
            stale_pairs += 1;
            let lower = (0..=*k).map(|i| ctx.lower_timestamp(i)).max().unwrap_or(0);
            if *ts > lower {
                ev.failure = Some(("stale-validation-eligible".into(), format!("validation of index {k} took timestamp {ts} before rewind_validation_to({j}) was invoked, yet after that rewind returned the largest rewind timestamp over 0..={k} is {lower} < {ts}: the finality rule (unconfirmed_ts > carried lower_ts) would accept the stale validation")));
                return ev;
            }
        }
    }
    *ev.hist.entry("validations_predating_a_covering_rewind".into()).or_insert(0) += stale_pairs;
    *ev.hist.entry("runs_rewind_overlapping_claim".into()).or_insert(0) += overlap as u64;
    *ev.hist.entry("runs_out_of_order_publication".into()).or_insert(0) += out_of_order as u64;
    *ev.hist.entry("steps".into()).or_insert(0) += out.stats.steps;
    ev.nontrivial = overlap || out_of_order || stale_pairs > 0;
    ev
}

// =============================================================================================
// C16
// =============================================================================================

/// outcome of (tx, attempt): 0 = success, 1 = error (key_tx), 2+d = blocked on transaction d
#[derive(Clone, Debug, Serialize, Deserialize)]
pub struct C16Case {
    pub n: u8,
    pub workers: u8,
    /// per transaction: outcomes of its first attempts; afterwards it succeeds
    pub table: Vec<Vec<u8>>,
    pub schedule: Schedule,
}

#[derive(Clone, Copy, PartialEq, Debug)]
enum MiniStatus {
    Initial,
    Executing,
    Executed,
    Conflict,
}

struct Mini {
    n: usize,
    dep: VTxDependency,
    status: Vec<PlMutex<(MiniStatus, usize)>>,
    committed: AtomicUsize,
    abort: Arc<AtomicBool>,
    table: Vec<Vec<u8>>,
    violation: PlMutex<Option<(String, String)>>,
    /// harness bookkeeping (only touched while holding the baton)
    claimed: Vec<AtomicBool>,
    blocker: Vec<AtomicUsize>, // usize::MAX = none
    resolved_since_add: Vec<AtomicBool>,
    finished: Vec<AtomicBool>,
    stats_replaced_with_stale_edge: AtomicBool,
    stats_commit_overlaps_key_tx: AtomicBool,
    in_key_tx: Vec<AtomicBool>,
    in_commit: Vec<AtomicBool>,
    in_add: Vec<AtomicUsize>,
    in_remove: Vec<AtomicBool>,
    stats_remove_overlaps_add: AtomicBool,
}

const LOCK_KIND: u32 = 950;

impl Mini {
    fn lock_status(&self, tx: usize) -> parking_lot::MutexGuard<'_, (MiniStatus, usize)> {
        let m = &self.status[tx];
        controller().lock_point(LOCK_KIND, tx, &|| m.is_locked());
        m.lock()
    }

    fn fail(&self, clause: &str, detail: String) {
        let mut v = self.violation.lock();
        if v.is_none() {
            *v = Some((clause.to_string(), detail));
        }
        self.abort.store(true, Ordering::SeqCst);
    }

    fn on_claim(&self, _tx: usize, _how: &str) {}

    /// `d` has finished an execution without conflict (set before its dependents are released)
    fn resolve(&self, d: usize) {
        if !self.finished[d].swap(true, Ordering::SeqCst) {
            controller().note(N_FINISHED, d, 0);
        }
    }

    /// mirrors Scheduler::execution_task + execute_task
    fn execution_task(&self, tx: usize) {
        let mut next = Some(tx);
        while let Some(tx) = next.take() {
            let mut st = self.lock_status(tx);
            match st.0 {
                MiniStatus::Initial | MiniStatus::Conflict => {
                    st.0 = MiniStatus::Executing;
                    st.1 += 1;
                }
                MiniStatus::Executing => return,
                MiniStatus::Executed => {
                    drop(st);
                    self.resolve(tx);
                    self.in_remove[tx].store(true, Ordering::SeqCst);
                    self.dep.remove(tx, false);
                    self.in_remove[tx].store(false, Ordering::SeqCst);
                    return;
                }
            }
            let attempt = st.1;
            let outcome = self.table[tx].get(attempt - 1).copied().unwrap_or(0);
            controller().harness_point(crate::dsched::PT_HARNESS);
            match outcome {
                0 => {
                    // success: release dependents, maybe take the successor directly
                    self.resolve(tx);
                    self.in_remove[tx].store(true, Ordering::SeqCst);
                    if (0..self.n).any(|t| self.in_add[t].load(Ordering::SeqCst) == tx + 1) {
                        self.stats_remove_overlaps_add.store(true, Ordering::SeqCst);
                    }
                    let handoff = self.dep.remove(tx, true);
                    self.in_remove[tx].store(false, Ordering::SeqCst);
                    st.0 = MiniStatus::Executed;
                    if let Some(h) = handoff {
                        self.on_claim(h, "direct hand-off");
                        drop(st);
                        next = Some(h);
                        continue;
                    }
                }
                1 => {
                    // error without unresolved predecessor: wait behind the own commit boundary
                    self.claimed[tx].store(false, Ordering::SeqCst);
                    self.blocker[tx].store(usize::MAX, Ordering::SeqCst);
                    self.in_key_tx[tx].store(true, Ordering::SeqCst);
                    if tx > 0 && self.in_commit[tx - 1].load(Ordering::SeqCst) {
                        self.stats_commit_overlaps_key_tx.store(true, Ordering::SeqCst);
                    }
                    self.dep.key_tx(tx);
                    self.in_key_tx[tx].store(false, Ordering::SeqCst);
                    st.0 = MiniStatus::Conflict;
                }
                d if d >= 100 && tx >= 2 => {
                    // documented API usage: replacing a blocker leaves a stale reverse edge
                    let d1 = (d as usize - 100) % tx;
                    let d2 = (d1 + 1 + ((d as usize - 100) / 8) % (tx - 1)) % tx;
                    let c = self.committed.load(Ordering::SeqCst);
                    self.claimed[tx].store(false, Ordering::SeqCst);
                    if d1 >= c && d2 >= c {
                        self.stats_replaced_with_stale_edge.store(true, Ordering::SeqCst);
                        self.dep.add(tx, Some(d1));
                        controller().harness_point(crate::dsched::PT_HARNESS);
                        self.dep.add(tx, Some(d2));
                    } else {
                        self.dep.add(tx, None);
                    }
                    st.0 = MiniStatus::Conflict;
                }
                d => {
                    let d = (d as usize - 2) % tx.max(1);
                    if tx == 0 {
                        // no predecessor to wait for: behaves like add(tx, None)
                        self.claimed[tx].store(false, Ordering::SeqCst);
                        self.blocker[tx].store(usize::MAX, Ordering::SeqCst);
                        self.dep.add(tx, None);
                    } else {
                        // latest_unfinalized_blocker: only a blocker that is not committed yet
                        let dep_id = if d >= self.committed.load(Ordering::SeqCst) { Some(d) } else { None };
                        let old = self.blocker[tx].load(Ordering::SeqCst);
                        if let (Some(nd), true) = (dep_id, old != usize::MAX) {
                            if old != nd && !self.finished[old].load(Ordering::SeqCst) {
                                self.stats_replaced_with_stale_edge.store(true, Ordering::SeqCst);
                            }
                        }
                        self.claimed[tx].store(false, Ordering::SeqCst);
                        self.blocker[tx].store(dep_id.unwrap_or(usize::MAX), Ordering::SeqCst);
                        self.resolved_since_add[tx].store(false, Ordering::SeqCst);
                        self.in_add[tx].store(dep_id.map_or(0, |x| x + 1), Ordering::SeqCst);
                        if let Some(nd) = dep_id {
                            // add() re-onboards the blocker as well: it may legitimately be handed
                            // out again (a duplicate claim of an executed blocker releases its
                            // dependents through remove(blocker, false))
                            self.claimed[nd].store(false, Ordering::SeqCst);
                            if self.in_remove[nd].load(Ordering::SeqCst) {
                                self.stats_remove_overlaps_add.store(true, Ordering::SeqCst);
                            }
                        }
                        self.dep.add(tx, dep_id);
                        self.in_add[tx].store(0, Ordering::SeqCst);
                    }
                    st.0 = MiniStatus::Conflict;
                }
            }
        }
    }

    fn all_committed(&self) -> bool {
        self.committed.load(Ordering::SeqCst) >= self.n
    }

    fn worker(&self) {
        let ctl = controller();
        while !self.all_committed() && !self.abort.load(Ordering::SeqCst) {
            ctl.spin();
            if let Some(tx) = self.dep.next() {
                self.on_claim(tx, "cursor");
                self.execution_task(tx);
            }
        }
    }

    fn committer(&self) {
        let ctl = controller();
        let mut i = 0;
        while i < self.n && !self.abort.load(Ordering::SeqCst) {
            ctl.spin();
            // poll without a hook so that a waiting committer is recognised as idle
            let done = self.finished[i].load(Ordering::SeqCst)
                && {
                    let st = self.lock_status(i);
                    st.0 == MiniStatus::Executed
                };
            if done {
                ctl.harness_point(crate::dsched::PT_HARNESS);
                self.in_commit[i].store(true, Ordering::SeqCst);
                if i + 1 < self.n && self.in_key_tx[i + 1].load(Ordering::SeqCst) {
                    self.stats_commit_overlaps_key_tx.store(true, Ordering::SeqCst);
                }
                self.committed.store(i + 1, Ordering::SeqCst);
                ctl.note(N_COMMITTED, i + 1, 0);
                self.resolve(i);
                self.dep.publish_commit(i + 1);
                ctl.harness_point(crate::dsched::PT_HARNESS);
                self.dep.commit(i);
                self.in_commit[i].store(false, Ordering::SeqCst);
                i += 1;
            }
        }
    }
}

pub fn eval_c16(case: &C16Case) -> CaseEval {
    let mut ev = CaseEval::default();
    let n = case.n.clamp(2, 5) as usize;
    let abort = Arc::new(AtomicBool::new(false));
    let mut table = case.table.clone();
    table.resize(n, vec![]);
    let mini = Mini {
        n,
        dep: VTxDependency::new(n),
        status: (0..n).map(|_| PlMutex::new((MiniStatus::Initial, 0))).collect(),
        committed: AtomicUsize::new(0),
        abort: abort.clone(),
        table,
        violation: PlMutex::new(None),
        claimed: (0..n).map(|_| AtomicBool::new(false)).collect(),
        blocker: (0..n).map(|_| AtomicUsize::new(usize::MAX)).collect(),
        resolved_since_add: (0..n).map(|_| AtomicBool::new(false)).collect(),
        finished: (0..n).map(|_| AtomicBool::new(false)).collect(),
        stats_replaced_with_stale_edge: AtomicBool::new(false),
        stats_commit_overlaps_key_tx: AtomicBool::new(false),
        in_key_tx: (0..n).map(|_| AtomicBool::new(false)).collect(),
        in_commit: (0..n).map(|_| AtomicBool::new(false)).collect(),
        in_add: (0..n).map(|_| AtomicUsize::new(0)).collect(),
        in_remove: (0..n).map(|_| AtomicBool::new(false)).collect(),
        stats_remove_overlaps_add: AtomicBool::new(false),
    };
    let m = &mini;
    let mut threads: Vec<Box<dyn FnOnce() + Send>> = Vec::new();
    threads.push(Box::new(move || m.committer()));
    for _ in 0..case.workers.clamp(1, 3) {
        threads.push(Box::new(move || m.worker()));
    }
    let out = run_threads(&case.schedule, abort.clone(), threads);
    if let Some(v) = mini.violation.lock().clone() {
        if std::env::var("VERIF_TRACE").is_ok() {
            for l in &out.log {
                eprintln!("  [{}] t{:?} {:?}", l.step, l.thread, l.ev);
            }
        }
        ev.failure = Some(v);
        return ev;
    }
    match verdict_failure(&out.verdict) {
        Err((c, d)) => {
            let sts: Vec<_> = mini.status.iter().map(|s| s.lock().clone()).collect();
            ev.failure = Some((c, format!("{d}; committed={} statuses={sts:?}: a transaction is left without a thread that will execute it", mini.committed.load(Ordering::SeqCst))));
            return ev;
        }
        Ok(Some(i)) => {
            ev.inconclusive = Some(i);
            return ev;
        }
        Ok(None) => {}
    }
    if !mini.all_committed() {
        ev.failure = Some(("drain".into(), "threads exited but not every transaction was committed".into()));
        return ev;
    }
    // exactly one claimer per onboarding: the onboarding / claim events are emitted under the
    // dependent's lock, so their order in the log is the order of the state changes
    let mut onboard = vec![true; n];
    let mut blocker: Vec<Option<usize>> = vec![None; n];
    let mut finished = vec![false; n];
    let mut committed = 0usize;
    for l in &out.log {
        match &l.ev {
            Ev::Note { code: N_FINISHED, a, .. } => finished[*a] = true,
            Ev::Note { code: N_COMMITTED, a, .. } => committed = *a,
            Ev::DepBlocked { txid, dep } => blocker[*txid] = Some(*dep),
            Ev::DepOnboard { txid } => onboard[*txid] = true,
            Ev::DepClaim { txid, handoff } => {
                // the blocker installed since the previous claim must have been resolved:
                // finished an execution without conflict, found past execution, or committed
                if let Some(d) = blocker[*txid].take() {
                    let resolved = if d == *txid { committed >= d } else { finished[d] || committed > d };
                    if !resolved {
                        ev.failure = Some(("stale-release".into(), format!("transaction {txid} was handed out ({}) while its current blocker {d} has neither finished an execution nor been committed (committed prefix = {committed})", if *handoff { "direct hand-off" } else { "cursor" })));
                        return ev;
                    }
                }
                if !onboard[*txid] {
                    ev.failure = Some(("double-claim".into(), format!("transaction {txid} was handed out ({}) twice without being re-onboarded in between", if *handoff { "direct hand-off" } else { "cursor" })));
                    return ev;
                }
                onboard[*txid] = false;
            }
            _ => {}
        }
    }
    let a = mini.stats_replaced_with_stale_edge.load(Ordering::SeqCst);
    let b = mini.stats_commit_overlaps_key_tx.load(Ordering::SeqCst);
    let c = mini.stats_remove_overlaps_add.load(Ordering::SeqCst);
    *ev.hist.entry("runs_blocker_replaced_with_stale_edge".into()).or_insert(0) += a as u64;
    *ev.hist.entry("runs_commit_overlaps_key_tx".into()).or_insert(0) += b as u64;
    *ev.hist.entry("runs_remove_overlaps_add".into()).or_insert(0) += c as u64;
    *ev.hist.entry("steps".into()).or_insert(0) += out.stats.steps;
    ev.nontrivial = a || b || c;
    ev
}

// =============================================================================================
// C17
// =============================================================================================

#[derive(Clone, Debug, Serialize, Deserialize)]
pub struct C17Case {
    /// number of conditions the waiter waits for, in order
    pub conds: u8,
    /// per notifier: the conditions it makes true, in order (each followed by notify)
    pub notifiers: Vec<Vec<u8>>,
    /// the waiter performs this many harness steps before registering (lets notifications
    /// arrive before registration)
    pub delay_register: u8,
    pub schedule: Schedule,
}

pub fn eval_c17(case: &C17Case) -> CaseEval {
    let mut ev = CaseEval::default();
    let k = case.conds.clamp(1, 4) as usize;
    let slot = VWaitSlot::new();
    let flags: Vec<AtomicBool> = (0..k).map(|_| AtomicBool::new(false)).collect();
    let abort = Arc::new(AtomicBool::new(false));
    let ctl = controller();
    let returned_blocked = AtomicBool::new(false);
    let mut threads: Vec<Box<dyn FnOnce() + Send + '_>> = Vec::new();
    {
        let slot = &slot;
        let flags = &flags;
        let abort = abort.clone();
        let delay = case.delay_register;
        threads.push(Box::new(move || {
            for _ in 0..delay {
                ctl.harness_point(crate::dsched::PT_HARNESS);
            }
            slot.register_current_thread();
            for c in 0..k {
                // production usage: loop around wait_while; a spurious return is allowed
                while !flags[c].load(Ordering::Acquire) && !abort.load(Ordering::SeqCst) {
                    slot.wait_while(Duration::from_secs(8), || !flags[c].load(Ordering::Acquire) && !abort.load(Ordering::SeqCst));
                }
            }
        }));
    }
    // every condition must be set by someone, otherwise the waiter legitimately waits forever
    let mut covered = vec![false; k];
    let mut progs: Vec<Vec<usize>> = case.notifiers.iter().map(|p| p.iter().map(|c| *c as usize % k).collect()).collect();
    for p in &progs {
        for c in p {
            covered[*c] = true;
        }
    }
    if progs.is_empty() {
        progs.push(vec![]);
    }
    for c in 0..k {
        if !covered[c] {
            progs[0].push(c);
        }
    }
    for p in progs {
        let slot = &slot;
        let flags = &flags;
        threads.push(Box::new(move || {
            for c in p {
                ctl.harness_point(crate::dsched::PT_HARNESS);
                // producers publish state before notify
                flags[c].store(true, Ordering::Release);
                ctl.harness_point(crate::dsched::PT_HARNESS);
                slot.notify();
            }
        }));
    }
    let out = run_threads(&case.schedule, abort, threads);
    let _ = returned_blocked;
    match verdict_failure(&out.verdict) {
        Err(f) => {
            ev.failure = Some(f);
            return ev;
        }
        Ok(Some(i)) => {
            ev.inconclusive = Some(i);
            return ev;
        }
        Ok(None) => {}
    }
    let token_wakes = out.log.iter().filter(|l: &&LoggedEv| matches!(l.ev, Ev::Unparked { by_token: true, .. })).count();
    let park_wakes = out.log.iter().filter(|l| matches!(l.ev, Ev::Unparked { by_token: false, .. })).count();
    *ev.hist.entry("runs_notify_between_check_and_park_or_before_registration".into()).or_insert(0) += (token_wakes > 0 || out.stats.unparks_token > 0) as u64;
    *ev.hist.entry("runs_notify_while_parked".into()).or_insert(0) += (park_wakes > 0) as u64;
    *ev.hist.entry("steps".into()).or_insert(0) += out.stats.steps;
    ev.nontrivial = token_wakes > 0 || out.stats.unparks_token > 0;
    ev
}

// =============================================================================================
// bounded-exhaustive slices (every schedule of a tiny scenario), C15 and C17
// =============================================================================================

#[derive(Clone, Debug, Default)]
pub struct ExhaustiveReport {
    pub scenarios: u64,
    pub schedules: u64,
    pub exhausted_all: bool,
    pub failure: Option<(String, String, serde_json::Value)>,
}

/// C17: one waiter x one notifier x `conds` conditions, every interleaving.
pub fn exhaustive_c17(max_conds: u8, cap_per_scenario: usize) -> ExhaustiveReport {
    let mut rep = ExhaustiveReport { exhausted_all: true, ..Default::default() };
    for conds in 1..=max_conds {
        for delay in 0..=1u8 {
            // notifier orders: in order, reversed
            let orders: Vec<Vec<u8>> = if conds == 1 { vec![vec![0]] } else { vec![(0..conds).collect(), (0..conds).rev().collect()] };
            for order in orders {
                rep.scenarios += 1;
                let mut fail = None;
                let (n, done) = crate::dsched::enumerate_schedules(cap_per_scenario, |s| {
                    let case = C17Case { conds, notifiers: vec![order.clone()], delay_register: delay, schedule: s.clone() };
                    let (ev, widths) = eval_c17_with_widths(&case);
                    if let Some((c, d)) = ev.failure {
                        fail = Some((c, d, serde_json::to_value(&case).unwrap()));
                        return None;
                    }
                    Some(widths)
                });
                rep.schedules += n as u64;
                rep.exhausted_all &= done;
                if let Some(f) = fail {
                    rep.failure = Some(f);
                    rep.exhausted_all = false;
                    return rep;
                }
            }
        }
    }
    rep
}

pub fn eval_c17_with_widths(case: &C17Case) -> (CaseEval, Vec<u8>) {
    LAST_WIDTHS.with(|w| w.borrow_mut().clear());
    let ev = eval_c17(case);
    (ev, LAST_WIDTHS.with(|w| w.borrow().clone()))
}

pub fn eval_c15_with_widths(case: &C15Case) -> (CaseEval, Vec<u8>) {
    LAST_WIDTHS.with(|w| w.borrow_mut().clear());
    let ev = eval_c15(case);
    (ev, LAST_WIDTHS.with(|w| w.borrow().clone()))
}

thread_local! {
    pub static LAST_WIDTHS: std::cell::RefCell<Vec<u8>> = const { std::cell::RefCell::new(Vec::new()) };
}

/// C15: two threads with at most two operations each, from a small operation set over n = 3
/// indices, every interleaving.
pub fn exhaustive_c15(cap_per_scenario: usize, thorough: bool) -> ExhaustiveReport {
    let mut rep = ExhaustiveReport { exhausted_all: true, ..Default::default() };
    let ops = [CursorOp::Claim(2), CursorOp::Rewind(0), CursorOp::Rewind(1), CursorOp::Publish(0), CursorOp::Publish(1), CursorOp::Publish(2), CursorOp::ReadFrontier];
    let mut programs: Vec<Vec<CursorOp>> = Vec::new();
    for a in &ops {
        programs.push(vec![a.clone()]);
        if thorough {
            for b in &ops {
                programs.push(vec![a.clone(), b.clone()]);
            }
        }
    }
    // the first two indices are executed and index 0 is claimed so that claims have something to take
    let mut cases: Vec<C15Case> = Vec::new();
    for (i, p1) in programs.iter().enumerate() {
        for p2 in programs.iter().skip(i) {
            cases.push(C15Case { n: 3, setup: vec![CursorOp::Publish(0), CursorOp::Publish(1), CursorOp::Claim(1)], programs: vec![p1.clone(), p2.clone()], schedule: Schedule::default() });
        }
    }
    // timestamp family (last sentence): one validator against a thread issuing two rewinds; n = 4,
    // everything executed, indices 0..2 already claimed
    for a in 0u8..4 {
        for b in 0u8..4 {
            cases.push(C15Case {
                n: 4,
                setup: vec![CursorOp::Publish(0), CursorOp::Publish(1), CursorOp::Publish(2), CursorOp::Publish(3), CursorOp::Claim(3)],
                programs: vec![vec![CursorOp::Rewind(a), CursorOp::Rewind(b)], vec![CursorOp::Validate]],
                schedule: Schedule::default(),
            });
        }
    }
    for case0 in cases {
        rep.scenarios += 1;
        let mut fail = None;
        let (n, done) = crate::dsched::enumerate_schedules(cap_per_scenario, |s| {
            let case = C15Case { schedule: s.clone(), ..case0.clone() };
            let (ev, widths) = eval_c15_with_widths(&case);
            if let Some((c, d)) = ev.failure {
                fail = Some((c, d, serde_json::to_value(&case).unwrap()));
                return None;
            }
            Some(widths)
        });
        rep.schedules += n as u64;
        rep.exhausted_all &= done;
        if let Some(f) = fail {
            rep.failure = Some(f);
            rep.exhausted_all = false;
            return rep;
        }
    }
    rep
}

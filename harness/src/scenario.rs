//! Scenario: the JSON-serialisable generated input (world, block, transactions, configuration,
//! schedule) and its materialisation into revm types. See DESIGN.md 3.3.

use crate::dsched::Schedule;
use revm::primitives::{hardfork::SpecId, keccak256, Address, Bytes, B256, U256};
use revm::state::Bytecode;
use serde::{Deserialize, Serialize};

pub const SPECS: [SpecId; 14] = [
    SpecId::FRONTIER,
    SpecId::HOMESTEAD,
    SpecId::TANGERINE,
    SpecId::SPURIOUS_DRAGON,
    SpecId::BYZANTIUM,
    SpecId::PETERSBURG,
    SpecId::ISTANBUL,
    SpecId::BERLIN,
    SpecId::LONDON,
    SpecId::MERGE,
    SpecId::SHANGHAI,
    SpecId::CANCUN,
    SpecId::PRAGUE,
    SpecId::OSAKA,
];
pub const SPEC_NAMES: [&str; 14] = [
    "FRONTIER", "HOMESTEAD", "TANGERINE", "SPURIOUS_DRAGON", "BYZANTIUM", "PETERSBURG", "ISTANBUL",
    "BERLIN", "LONDON", "MERGE", "SHANGHAI", "CANCUN", "PRAGUE", "OSAKA",
];
pub const SPEC_LONDON: u8 = 8;
pub const SPEC_SHANGHAI: u8 = 10;
pub const SPEC_CANCUN: u8 = 11;
pub const SPEC_PRAGUE: u8 = 12;

pub const BLOCK_NUMBER: u64 = 1000;
/// `TxDef::prio` sentinel: priority fee one above the max fee (an invalid transaction)
pub const PRIO_OVER: u64 = u64::MAX;
pub const CHAIN_ID: u64 = 1;

/// Symbolic address; resolved by `World::addr`.
#[derive(Clone, Debug, Serialize, Deserialize, PartialEq, Eq, Hash, PartialOrd, Ord)]
pub enum AddrRef {
    Eoa(u8),
    Con(u8),
    /// never present in the pre-state
    Absent(u8),
    /// address of a contract created by contract `creator` with CREATE at account nonce `nonce`
    Created { creator: u8, nonce: u8 },
    /// CREATE2 by contract `creator` with `salt` and init-code kind `init`
    Created2 { creator: u8, salt: u8, init: u8 },
    /// address created by a top-level create transaction of EOA `sender` at (initial nonce + k)
    TxCreated { sender: u8, k: u8 },
    /// standard precompile 1..=9
    Precompile(u8),
    /// custom (facade) precompile i
    Custom(u8),
    /// the block beneficiary
    Benef,
}

#[derive(Clone, Debug, Serialize, Deserialize, PartialEq)]
pub enum Expr {
    Const(u64),
    SLoad(u8),
    Balance(AddrRef),
    SelfBalance,
    ExtCodeSize(AddrRef),
    ExtCodeHash(AddrRef),
    ExtCodeCopyWord(AddrRef),
    CallDataWord(u8),
    Caller,
    Coinbase,
    BlockHash(u8),
    Add(Box<Expr>, Box<Expr>),
    IsZero(Box<Expr>),
}

#[derive(Clone, Copy, Debug, Serialize, Deserialize, PartialEq)]
pub enum CallKind {
    Call,
    DelegateCall,
    StaticCall,
    CallCode,
}

#[derive(Clone, Debug, Serialize, Deserialize, PartialEq)]
pub enum Stmt {
    SStore(u8, Expr),
    If(Expr, Vec<Stmt>, Vec<Stmt>),
    Call {
        kind: CallKind,
        target: AddrRef,
        value: u64,
        sel: u8,
        /// extra calldata word (after the selector byte)
        arg: Option<u64>,
        small_gas: bool,
        /// store (success + first returned word) into this slot
        store: Option<u8>,
    },
    Create { create2: bool, salt: u8, init: u8, value: u64, store: Option<u8> },
    SelfDestruct(AddrRef),
    Log(Expr),
    Revert,
    Stop,
    Return(Expr),
    Invalid,
}

#[derive(Clone, Debug, Serialize, Deserialize, PartialEq)]
pub enum Code {
    /// `switch(calldata[0])` over routines; selector >= len falls into routine 0
    Routines(Vec<Vec<Stmt>>),
    Raw(Vec<u8>),
}

#[derive(Clone, Debug, Serialize, Deserialize, PartialEq)]
pub enum Bal {
    Zero,
    Wei(u64),
    /// 10^18 * n
    Ether(u32),
    /// U256::MAX - n
    NearMax(u64),
}

impl Bal {
    pub fn to_u256(&self) -> U256 {
        match self {
            Bal::Zero => U256::ZERO,
            Bal::Wei(n) => U256::from(*n),
            Bal::Ether(n) => U256::from(*n) * U256::from(1_000_000_000_000_000_000u128),
            Bal::NearMax(n) => U256::MAX - U256::from(*n),
        }
    }
}

#[derive(Clone, Debug, Serialize, Deserialize, PartialEq)]
pub struct EoaDef {
    pub balance: Bal,
    pub nonce: u64,
    /// pre-state EIP-7702 delegation designator
    pub delegate: Option<AddrRef>,
}

#[derive(Clone, Debug, Serialize, Deserialize, PartialEq)]
pub struct ContractDef {
    pub balance: Bal,
    pub storage: Vec<(u8, u64)>,
    pub code: Code,
}

/// A pre-state contract placed at a computed address (e.g. the CREATE2 address a transaction of the
/// block can deploy to), running one of the library runtimes.
#[derive(Clone, Debug, Serialize, Deserialize, PartialEq)]
pub struct PlacedDef {
    pub at: AddrRef,
    pub balance: Bal,
    pub storage: Vec<(u8, u64)>,
    /// lib_runtime index: 0 storage cell, 1 self-destructor (any call), 2 empty
    pub runtime: u8,
}

#[derive(Clone, Debug, Serialize, Deserialize, PartialEq)]
pub struct World {
    pub eoas: Vec<EoaDef>,
    pub contracts: Vec<ContractDef>,
    pub beneficiary: AddrRef,
    #[serde(default)]
    pub placed: Vec<PlacedDef>,
}

#[derive(Clone, Debug, Serialize, Deserialize, PartialEq)]
pub enum NoncePolicy {
    /// the sender's nonce in the in-order state just before this transaction
    Correct,
    Plus(u8),
    Minus(u8),
    Max,
    Exact(u64),
}

#[derive(Clone, Debug, Serialize, Deserialize, PartialEq)]
pub enum ValueDef {
    Zero,
    Wei(u64),
    /// sender's in-order balance minus gas_limit*price (the most it can send)
    AllSpendable,
    /// one wei more than that
    TooMuch,
}

#[derive(Clone, Debug, Serialize, Deserialize, PartialEq)]
pub enum GasDef {
    Limit(u64),
    /// exactly the intrinsic-ish 21000
    Exact21000,
    BelowIntrinsic,
    AboveBlock,
}

#[derive(Clone, Debug, Serialize, Deserialize, PartialEq)]
pub enum TxTo {
    Call(AddrRef),
    Create(u8),
}

#[derive(Clone, Debug, Serialize, Deserialize, PartialEq)]
pub enum AuthNonce {
    Correct,
    Wrong,
}

#[derive(Clone, Debug, Serialize, Deserialize, PartialEq)]
pub struct AuthDef {
    /// authority EOA index; None = invalid signature (authority not recoverable)
    pub authority: Option<u8>,
    /// delegate to this address; None = clear (zero address)
    pub target: Option<AddrRef>,
    pub nonce: AuthNonce,
    /// 0 = any chain (0), 1 = right chain id, 2 = wrong chain id
    pub chain: u8,
}

#[derive(Clone, Debug, Serialize, Deserialize, PartialEq)]
pub struct TxDef {
    pub sender: u8,
    pub nonce: NoncePolicy,
    pub to: TxTo,
    /// first calldata byte (routine selector)
    pub sel: u8,
    pub arg: Option<u64>,
    pub value: ValueDef,
    pub gas: GasDef,
    /// gas price = basefee + delta (clamped at 0)
    pub price_delta: i32,
    /// Some => EIP-1559 transaction with this priority fee (max fee = gas price)
    pub prio: Option<u64>,
    /// 0 legacy, 1 eip2930, 2 eip1559, 4 eip7702 (3 blob not generated)
    pub tx_type: u8,
    /// 0 = none, 1 = right, 2 = wrong
    pub chain: u8,
    pub access_list: Vec<(AddrRef, Vec<u8>)>,
    pub auths: Vec<AuthDef>,
}

impl Default for TxDef {
    fn default() -> Self {
        TxDef {
            sender: 0,
            nonce: NoncePolicy::Correct,
            to: TxTo::Call(AddrRef::Con(0)),
            sel: 0,
            arg: None,
            value: ValueDef::Zero,
            gas: GasDef::Limit(400_000),
            price_delta: 1,
            prio: None,
            tx_type: 0,
            chain: 1,
            access_list: vec![],
            auths: vec![],
        }
    }
}

#[derive(Clone, Debug, Serialize, Deserialize, PartialEq)]
pub enum Entry {
    Execute,
    ParallelExecute(u8),
    FallbackSequential,
}

#[derive(Clone, Debug, Serialize, Deserialize, PartialEq)]
pub struct GrevmCfg {
    pub concurrency: u8,
    pub min_parallel_txs: u8,
    pub force_sequential: bool,
    pub forbid_delegated_create: bool,
    pub reserve_delegated_balance: bool,
    pub entry: Entry,
}

impl Default for GrevmCfg {
    fn default() -> Self {
        GrevmCfg {
            concurrency: 2,
            min_parallel_txs: 0,
            force_sequential: false,
            forbid_delegated_create: false,
            reserve_delegated_balance: false,
            entry: Entry::Execute,
        }
    }
}

/// Fault plan for the in-memory database.
#[derive(Clone, Debug, Serialize, Deserialize, PartialEq)]
pub enum FaultMode {
    Persistent,
    /// the n-th query of the key fails (0-based), all others succeed
    FailNth(u8),
    /// the n-th query of the key panics
    PanicNth(u8),
}

#[derive(Clone, Debug, Serialize, Deserialize, PartialEq, Eq, Hash, PartialOrd, Ord)]
pub enum DbKey {
    Basic(AddrRef),
    Storage(AddrRef, u8),
    Code(AddrRef),
    BlockHash(u8),
}

#[derive(Clone, Debug, Serialize, Deserialize, PartialEq)]
pub struct Fault {
    pub key: DbKey,
    pub mode: FaultMode,
}

/// A fault on a concrete database key (as recorded by the fault enumeration of C04).
/// kind: 0 basic(a), 1 storage(a, b), 2 code(hash a), 3 block hash(number b)
#[derive(Clone, Debug, Serialize, Deserialize, PartialEq)]
pub struct RawFault {
    pub kind: u8,
    pub a: String,
    pub b: String,
    pub mode: FaultMode,
}

#[derive(Clone, Debug, Serialize, Deserialize, PartialEq)]
pub struct Scenario {
    pub spec: u8,
    pub disable_nonce_check: bool,
    pub basefee: u64,
    pub world: World,
    pub txs: Vec<TxDef>,
    pub grevm: GrevmCfg,
    pub faults: Vec<Fault>,
    #[serde(default)]
    pub raw_faults: Vec<RawFault>,
    /// None = free-running (real parallel threads)
    pub schedule: Option<Schedule>,
    /// database reads are schedule points
    pub db_yields: bool,
    /// C05: the scripted custom precompile panics at its n-th invocation by grevm (0 = never)
    #[serde(default)]
    pub precompile_panic_at: u8,
}

// ------------------------------------------------------------------------------------------
// Address resolution
// ------------------------------------------------------------------------------------------

fn fixed(prefix: u8, i: u8) -> Address {
    let mut a = [0u8; 20];
    a[0] = prefix;
    a[19] = i;
    Address::from(a)
}

impl World {
    pub fn addr(&self, r: &AddrRef) -> Address {
        match r {
            AddrRef::Eoa(i) => fixed(0xE0, *i),
            AddrRef::Con(i) => fixed(0xC0, *i),
            AddrRef::Absent(i) => fixed(0xAB, *i),
            AddrRef::Created { creator, nonce } => fixed(0xC0, *creator).create(*nonce as u64),
            AddrRef::Created2 { creator, salt, init } => {
                let code = init_code(*init);
                fixed(0xC0, *creator).create2(B256::from(U256::from(*salt)), keccak256(&code))
            }
            AddrRef::TxCreated { sender, k } => {
                let base = self.eoas.get(*sender as usize).map(|e| e.nonce).unwrap_or(0);
                fixed(0xE0, *sender).create(base.saturating_add(*k as u64))
            }
            AddrRef::Precompile(i) => fixed(0x00, (*i).clamp(1, 9)),
            AddrRef::Custom(i) => fixed(0xF0, *i),
            AddrRef::Benef => self.addr(&self.beneficiary),
        }
    }

    pub fn beneficiary_addr(&self) -> Address {
        let b = match &self.beneficiary {
            AddrRef::Benef => AddrRef::Absent(0xBE),
            other => other.clone(),
        };
        self.addr(&b)
    }
}

// ------------------------------------------------------------------------------------------
// Assembler
// ------------------------------------------------------------------------------------------

mod op {
    pub const STOP: u8 = 0x00;
    pub const ADD: u8 = 0x01;
    pub const EQ: u8 = 0x14;
    pub const ISZERO: u8 = 0x15;
    pub const BYTE: u8 = 0x1a;
    pub const BALANCE: u8 = 0x31;
    pub const CALLER: u8 = 0x33;
    pub const CALLDATALOAD: u8 = 0x35;
    pub const CODECOPY: u8 = 0x39;
    pub const EXTCODESIZE: u8 = 0x3b;
    pub const EXTCODECOPY: u8 = 0x3c;
    pub const EXTCODEHASH: u8 = 0x3f;
    pub const BLOCKHASH: u8 = 0x40;
    pub const COINBASE: u8 = 0x41;
    pub const SELFBALANCE: u8 = 0x47;
    pub const POP: u8 = 0x50;
    pub const MLOAD: u8 = 0x51;
    pub const MSTORE: u8 = 0x52;
    pub const MSTORE8: u8 = 0x53;
    pub const SLOAD: u8 = 0x54;
    pub const SSTORE: u8 = 0x55;
    pub const JUMP: u8 = 0x56;
    pub const JUMPI: u8 = 0x57;
    pub const GAS: u8 = 0x5a;
    pub const JUMPDEST: u8 = 0x5b;
    pub const DUP1: u8 = 0x80;
    pub const LOG0: u8 = 0xa0;
    pub const CREATE: u8 = 0xf0;
    pub const CALL: u8 = 0xf1;
    pub const CALLCODE: u8 = 0xf2;
    pub const RETURN: u8 = 0xf3;
    pub const DELEGATECALL: u8 = 0xf4;
    pub const CREATE2: u8 = 0xf5;
    pub const STATICCALL: u8 = 0xfa;
    pub const REVERT: u8 = 0xfd;
    pub const INVALID: u8 = 0xfe;
    pub const SELFDESTRUCT: u8 = 0xff;
}

struct Asm<'w> {
    world: &'w World,
    code: Vec<u8>,
    labels: Vec<Option<usize>>,
    fixups: Vec<(usize, usize)>,
    blobs: Vec<(usize /*label*/, Vec<u8>)>,
}

impl<'w> Asm<'w> {
    fn new(world: &'w World) -> Self {
        Asm { world, code: vec![], labels: vec![], fixups: vec![], blobs: vec![] }
    }
    fn op(&mut self, o: u8) {
        self.code.push(o);
    }
    fn push_u64(&mut self, v: u64) {
        if v == 0 {
            self.code.extend_from_slice(&[0x60, 0]);
            return;
        }
        let bytes = v.to_be_bytes();
        let skip = bytes.iter().take_while(|b| **b == 0).count();
        let n = 8 - skip;
        self.code.push(0x5f + n as u8);
        self.code.extend_from_slice(&bytes[skip..]);
    }
    fn push_addr(&mut self, a: Address) {
        self.code.push(0x73);
        self.code.extend_from_slice(a.as_slice());
    }
    fn new_label(&mut self) -> usize {
        self.labels.push(None);
        self.labels.len() - 1
    }
    fn push_label(&mut self, l: usize) {
        self.code.push(0x61);
        self.fixups.push((self.code.len(), l));
        self.code.extend_from_slice(&[0, 0]);
    }
    fn place(&mut self, l: usize) {
        self.labels[l] = Some(self.code.len());
    }
    fn jumpdest(&mut self, l: usize) {
        self.place(l);
        self.op(op::JUMPDEST);
    }

    fn expr(&mut self, e: &Expr) {
        match e {
            Expr::Const(v) => self.push_u64(*v),
            Expr::SLoad(s) => {
                self.push_u64(*s as u64);
                self.op(op::SLOAD);
            }
            Expr::Balance(a) => {
                self.push_addr(self.world.addr(a));
                self.op(op::BALANCE);
            }
            Expr::SelfBalance => self.op(op::SELFBALANCE),
            Expr::ExtCodeSize(a) => {
                self.push_addr(self.world.addr(a));
                self.op(op::EXTCODESIZE);
            }
            Expr::ExtCodeHash(a) => {
                self.push_addr(self.world.addr(a));
                self.op(op::EXTCODEHASH);
            }
            Expr::ExtCodeCopyWord(a) => {
                self.push_u64(32);
                self.push_u64(0);
                self.push_u64(0x60);
                self.push_addr(self.world.addr(a));
                self.op(op::EXTCODECOPY);
                self.push_u64(0x60);
                self.op(op::MLOAD);
            }
            Expr::CallDataWord(i) => {
                self.push_u64(1 + 32 * (*i as u64));
                self.op(op::CALLDATALOAD);
            }
            Expr::Caller => self.op(op::CALLER),
            Expr::Coinbase => self.op(op::COINBASE),
            Expr::BlockHash(n) => {
                self.push_u64(BLOCK_NUMBER - 1 - (*n as u64 % 8));
                self.op(op::BLOCKHASH);
            }
            Expr::Add(a, b) => {
                self.expr(a);
                self.expr(b);
                self.op(op::ADD);
            }
            Expr::IsZero(a) => {
                self.expr(a);
                self.op(op::ISZERO);
            }
        }
    }

    fn stmts(&mut self, ss: &[Stmt]) {
        for s in ss {
            self.stmt(s);
        }
    }

    fn stmt(&mut self, s: &Stmt) {
        match s {
            Stmt::SStore(slot, e) => {
                self.expr(e);
                self.push_u64(*slot as u64);
                self.op(op::SSTORE);
            }
            Stmt::If(c, t, e) => {
                let lt = self.new_label();
                let lend = self.new_label();
                self.expr(c);
                self.push_label(lt);
                self.op(op::JUMPI);
                self.stmts(e);
                self.push_label(lend);
                self.op(op::JUMP);
                self.jumpdest(lt);
                self.stmts(t);
                self.jumpdest(lend);
            }
            Stmt::Call { kind, target, value, sel, arg, small_gas, store } => {
                // calldata: mem[0] = sel, mem[1..33] = arg
                self.push_u64(*sel as u64);
                self.push_u64(0);
                self.op(op::MSTORE8);
                let args_len = if let Some(a) = arg {
                    self.push_u64(*a);
                    self.push_u64(1);
                    self.op(op::MSTORE);
                    33
                } else {
                    1
                };
                self.push_u64(32); // ret len
                self.push_u64(0x40); // ret off
                self.push_u64(args_len);
                self.push_u64(0);
                if matches!(kind, CallKind::Call | CallKind::CallCode) {
                    self.push_u64(*value);
                }
                self.push_addr(self.world.addr(target));
                if *small_gas {
                    self.push_u64(3000);
                } else {
                    self.op(op::GAS);
                }
                self.op(match kind {
                    CallKind::Call => op::CALL,
                    CallKind::DelegateCall => op::DELEGATECALL,
                    CallKind::StaticCall => op::STATICCALL,
                    CallKind::CallCode => op::CALLCODE,
                });
                if let Some(slot) = store {
                    self.push_u64(0x40);
                    self.op(op::MLOAD);
                    self.op(op::ADD);
                    self.push_u64(*slot as u64);
                    self.op(op::SSTORE);
                } else {
                    self.op(op::POP);
                }
            }
            Stmt::Create { create2, salt, init, value, store } => {
                let blob = init_code(*init);
                let l = self.new_label();
                let len = blob.len() as u64;
                self.blobs.push((l, blob));
                self.push_u64(len);
                self.push_label(l);
                self.push_u64(0x80);
                self.op(op::CODECOPY);
                if *create2 {
                    self.push_u64(*salt as u64);
                }
                self.push_u64(len);
                self.push_u64(0x80);
                self.push_u64(*value);
                self.op(if *create2 { op::CREATE2 } else { op::CREATE });
                if let Some(slot) = store {
                    self.push_u64(*slot as u64);
                    self.op(op::SSTORE);
                } else {
                    self.op(op::POP);
                }
            }
            Stmt::SelfDestruct(a) => {
                self.push_addr(self.world.addr(a));
                self.op(op::SELFDESTRUCT);
            }
            Stmt::Log(e) => {
                self.expr(e);
                self.push_u64(0);
                self.op(op::MSTORE);
                self.push_u64(32);
                self.push_u64(0);
                self.op(op::LOG0);
            }
            Stmt::Revert => {
                self.push_u64(0);
                self.push_u64(0);
                self.op(op::REVERT);
            }
            Stmt::Stop => self.op(op::STOP),
            Stmt::Return(e) => {
                self.expr(e);
                self.push_u64(0);
                self.op(op::MSTORE);
                self.push_u64(32);
                self.push_u64(0);
                self.op(op::RETURN);
            }
            Stmt::Invalid => self.op(op::INVALID),
        }
    }

    fn finish(mut self) -> Vec<u8> {
        self.op(op::STOP);
        let blobs = std::mem::take(&mut self.blobs);
        for (l, b) in blobs {
            self.labels[l] = Some(self.code.len());
            self.code.extend_from_slice(&b);
        }
        for (pos, l) in &self.fixups {
            let t = self.labels[*l].expect("label placed");
            assert!(t < 65536);
            self.code[*pos] = (t >> 8) as u8;
            self.code[*pos + 1] = (t & 0xff) as u8;
        }
        self.code
    }
}

pub fn compile_routines(world: &World, routines: &[Vec<Stmt>]) -> Vec<u8> {
    let mut a = Asm::new(world);
    if routines.len() <= 1 {
        if let Some(r) = routines.first() {
            a.stmts(r);
        }
        return a.finish();
    }
    // selector = first calldata byte
    a.push_u64(0);
    a.op(op::CALLDATALOAD);
    a.push_u64(0);
    a.op(op::BYTE);
    let labels: Vec<usize> = (1..routines.len()).map(|_| a.new_label()).collect();
    for (i, l) in labels.iter().enumerate() {
        a.op(op::DUP1);
        a.push_u64(i as u64 + 1);
        a.op(op::EQ);
        a.push_label(*l);
        a.op(op::JUMPI);
    }
    a.op(op::POP);
    a.stmts(&routines[0]);
    a.op(op::STOP);
    for (i, l) in labels.iter().enumerate() {
        a.jumpdest(*l);
        a.op(op::POP);
        a.stmts(&routines[i + 1]);
        a.op(op::STOP);
    }
    a.finish()
}

pub fn compile_code(world: &World, code: &Code) -> Vec<u8> {
    match code {
        Code::Routines(r) => compile_routines(world, r),
        Code::Raw(b) => b.clone(),
    }
}

/// Library runtimes used by CREATE / CREATE2 / create transactions.
/// 0: storage cell (sel 1: SSTORE(0, arg); else return SLOAD(0)+SLOAD(1))
/// 1: self-destructor to caller (any call)
/// 2: empty runtime
pub fn lib_runtime(k: u8) -> Vec<u8> {
    let w = World { eoas: vec![], contracts: vec![], beneficiary: AddrRef::Absent(0xBE), placed: vec![] };
    match k % 3 {
        0 => compile_routines(
            &w,
            &[
                vec![Stmt::Return(Expr::Add(Box::new(Expr::SLoad(0)), Box::new(Expr::SLoad(1))))],
                vec![Stmt::SStore(0, Expr::CallDataWord(0))],
            ],
        ),
        1 => vec![op::CALLER, op::SELFDESTRUCT],
        _ => vec![],
    }
}

pub const INIT_KINDS: u8 = 10;

/// Init-code library.
/// 0: deploy lib 0            1: deploy lib 1 (self-destructor)     2: deploy empty runtime
/// 3: reverting init          4: SSTORE(1,7); SSTORE(2,9); deploy lib 0
/// 5: init self-destructs to caller   6: SSTORE(0, SELFBALANCE... ) deploy lib 0 after reading CALLER balance
/// 7-9: call routine 0 and routine 1 of EOA 0-2 (runs its delegate's code, if any, in the EOA's context), deploy lib 0
pub fn init_code(kind: u8) -> Vec<u8> {
    let kind = kind % INIT_KINDS;
    let w = World { eoas: vec![], contracts: vec![], beneficiary: AddrRef::Absent(0xBE), placed: vec![] };
    let mut a = Asm::new(&w);
    let runtime = match kind {
        0 | 4 | 6 | 7 | 8 | 9 => lib_runtime(0),
        1 => lib_runtime(1),
        _ => lib_runtime(2),
    };
    match kind {
        3 => {
            a.stmt(&Stmt::Revert);
        }
        4 => {
            a.stmt(&Stmt::SStore(1, Expr::Const(7)));
            a.stmt(&Stmt::SStore(2, Expr::Const(9)));
        }
        5 => {
            a.op(op::CALLER);
            a.op(op::SELFDESTRUCT);
        }
        6 => {
            a.op(op::CALLER);
            a.op(op::BALANCE);
            a.push_u64(0);
            a.op(op::SSTORE);
        }
        7..=9 => {
            for sel in 0..2u8 {
                a.stmt(&Stmt::Call { kind: CallKind::Call, target: AddrRef::Eoa(kind - 7), value: 0, sel, arg: None, small_gas: false, store: None });
            }
        }
        _ => {}
    }
    // copy runtime and return it
    let l = a.new_label();
    let len = runtime.len() as u64;
    a.push_u64(len);
    a.push_label(l);
    a.push_u64(0);
    a.op(op::CODECOPY);
    a.push_u64(len);
    a.push_u64(0);
    a.op(op::RETURN);
    a.blobs.push((l, runtime));
    // finish() appends STOP then blobs
    a.finish()
}

pub fn bytecode_of(raw: Vec<u8>) -> Bytecode {
    Bytecode::new_raw(Bytes::from(raw))
}

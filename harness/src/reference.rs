//! The reference oracle: stock revm executed strictly in order on `revm_database::State`,
//! independent of every grevm module under test (DESIGN.md 3.4).

use crate::dsched::{normalise_state, AccountDelta};
use crate::scenario::*;
use crate::world::*;
use grevm::TxExecutionOutcome;
use revm::context::either::Either;
use revm::context::result::EVMError;
use revm::context::transaction::{
    AccessList, AccessListItem, Authorization, RecoveredAuthority, RecoveredAuthorization,
};
use revm::context::{BlockEnv, CfgEnv, TxEnv};
use revm::database::states::bundle_state::BundleRetention;
use revm::database::{BundleState, State};
use revm::primitives::{Address, Bytes, TxKind, B256, U256};
use revm::{Context, Database, DatabaseCommit, ExecuteEvm, MainBuilder, MainContext};

/// Normalised error signature (kind + payload) of a fatal block error.
pub fn err_sig(e: &EVMError<DbErr>) -> String {
    match e {
        EVMError::Transaction(t) => format!("Transaction({t:?})"),
        EVMError::Header(h) => format!("Header({h:?})"),
        EVMError::Database(d) => format!("Database({})", d.0),
        // the reference's `State<WrapDatabaseRef<..>>` wraps database errors once more
        // (`EvmDatabaseError`), which only shows in the text of stringified errors
        EVMError::Custom(s) => format!("Custom({})", s.replace("Database error: ", "")),
        EVMError::CustomAny(s) => format!("CustomAny({s})"),
    }
}

#[derive(Clone, Debug, PartialEq)]
pub struct AccountRead {
    pub address: Address,
    pub info: Option<(U256, u64, B256)>,
    pub slots: Vec<U256>,
}
pub const READBACK_SLOTS: u64 = 8;

#[derive(Clone, Debug)]
pub struct RefOutput {
    pub outcomes: Vec<TxExecutionOutcome>,
    /// per executed-or-skipped transaction: normalised journal delta (empty when skipped)
    pub deltas: Vec<Vec<AccountDelta>>,
    pub error: Option<(usize, String)>,
    pub bundle: BundleState,
    pub readback: Option<Vec<AccountRead>>,
}

pub fn flatten_db_err(e: revm::database_interface::bal::EvmDatabaseError<DbErr>) -> DbErr {
    match e {
        revm::database_interface::bal::EvmDatabaseError::Database(d) => d,
        revm::database_interface::bal::EvmDatabaseError::Bal(b) => DbErr(format!("bal: {b:?}")),
    }
}

pub fn flatten_err(e: EVMError<revm::database_interface::bal::EvmDatabaseError<DbErr>>) -> EVMError<DbErr> {
    match e {
        EVMError::Transaction(t) => EVMError::Transaction(t),
        EVMError::Header(h) => EVMError::Header(h),
        EVMError::Database(d) => EVMError::Database(flatten_db_err(d)),
        EVMError::Custom(s) => EVMError::Custom(s),
        EVMError::CustomAny(s) => EVMError::CustomAny(s),
    }
}

pub type RefState<'a> = State<revm::database::WrapDatabaseRef<&'a MemDb>>;

pub fn new_ref_state(db: &MemDb) -> RefState<'_> {
    State::builder().with_database_ref(db).with_bundle_update().build()
}

/// Turn a `TxDef` into a `TxEnv` using the in-order state just before the transaction.
pub fn build_tx(sc: &Scenario, def: &TxDef, sender_nonce: u64, sender_balance: U256, auth_nonces: &dyn Fn(Address) -> u64) -> TxEnv {
    let w = &sc.world;
    let caller = w.addr(&AddrRef::Eoa(def.sender));
    let nonce = match def.nonce {
        NoncePolicy::Correct => sender_nonce,
        NoncePolicy::Plus(k) => sender_nonce.saturating_add(k as u64),
        NoncePolicy::Minus(k) => sender_nonce.saturating_sub(k as u64),
        NoncePolicy::Max => u64::MAX,
        NoncePolicy::Exact(n) => n,
    };
    let gas_limit = match def.gas {
        GasDef::Limit(g) => g,
        GasDef::Exact21000 => 21_000,
        GasDef::BelowIntrinsic => 20_999,
        GasDef::AboveBlock => 30_000_001,
    };
    let gas_price: u128 = (sc.basefee as i128 + def.price_delta as i128).max(0) as u128;
    let max_cost = U256::from(gas_limit) * U256::from(gas_price);
    let value = match def.value {
        ValueDef::Zero => U256::ZERO,
        ValueDef::Wei(v) => U256::from(v),
        ValueDef::AllSpendable => sender_balance.saturating_sub(max_cost),
        ValueDef::TooMuch => sender_balance.saturating_sub(max_cost).saturating_add(U256::from(1)),
    };
    let (kind, data) = match &def.to {
        TxTo::Call(a) => {
            let mut d = vec![def.sel];
            if let Some(arg) = def.arg {
                d.extend_from_slice(&U256::from(arg).to_be_bytes::<32>());
            }
            (TxKind::Call(w.addr(a)), Bytes::from(d))
        }
        TxTo::Create(k) => (TxKind::Create, Bytes::from(init_code(*k))),
    };
    let chain_id = match def.chain {
        0 => None,
        1 => Some(CHAIN_ID),
        _ => Some(CHAIN_ID + 7),
    };
    let access_list = AccessList(
        def.access_list
            .iter()
            .map(|(a, slots)| AccessListItem {
                address: w.addr(a),
                storage_keys: slots.iter().map(|s| B256::from(U256::from(*s))).collect(),
            })
            .collect(),
    );
    let mut seen: Vec<(Address, u64)> = Vec::new();
    let authorization_list = def
        .auths
        .iter()
        .map(|a| {
            let target = a.target.as_ref().map(|t| w.addr(t)).unwrap_or(Address::ZERO);
            let authority = a.authority.map(|i| w.addr(&AddrRef::Eoa(i)));
            let nonce = match (&a.nonce, authority) {
                (AuthNonce::Correct, Some(addr)) => {
                    // in-order nonce of the authority at the time this tuple is processed:
                    // the sender's nonce was bumped before, and earlier tuples of this list count
                    let mut n = auth_nonces(addr);
                    if addr == caller {
                        n = nonce.saturating_add(1).max(n.saturating_add(1));
                    }
                    let prior = seen.iter().filter(|(x, _)| *x == addr).count() as u64;
                    n.saturating_add(prior)
                }
                (AuthNonce::Wrong, Some(addr)) => auth_nonces(addr).wrapping_add(5),
                (_, None) => 0,
            };
            if let Some(addr) = authority {
                seen.push((addr, nonce));
            }
            let chain = match a.chain {
                0 => U256::ZERO,
                1 => U256::from(CHAIN_ID),
                _ => U256::from(CHAIN_ID + 7),
            };
            let auth = Authorization { chain_id: chain, address: target, nonce };
            Either::Right(RecoveredAuthorization::new_unchecked(
                auth,
                authority.map(RecoveredAuthority::Valid).unwrap_or(RecoveredAuthority::Invalid),
            ))
        })
        .collect::<Vec<_>>();
    let tx_type = def.tx_type;
    TxEnv {
        tx_type,
        caller,
        gas_limit,
        gas_price,
        kind,
        value,
        data,
        nonce,
        chain_id,
        access_list,
        gas_priority_fee: if tx_type >= 2 {
            let p = def.prio.unwrap_or(0);
            // PRIO_OVER = deliberately above the max fee (invalid); everything else is clamped valid
            Some(if p == PRIO_OVER { gas_price + 1 } else { (p as u128).min(gas_price) })
        } else {
            None
        },
        blob_hashes: vec![],
        max_fee_per_blob_gas: 0,
        authorization_list,
    }
}

pub fn read_back<D: Database>(db: &mut D, universe: &[Address]) -> Result<Vec<AccountRead>, D::Error> {
    let mut out = Vec::new();
    for a in universe {
        let info = db.basic(*a)?;
        let mut slots = Vec::new();
        for s in 0..READBACK_SLOTS {
            slots.push(db.storage(*a, U256::from(s))?);
        }
        out.push(AccountRead { address: *a, info: info.map(|i| (i.balance, i.nonce, i.code_hash)), slots });
    }
    Ok(out)
}

/// Hook for reference variants (custom precompiles, instruction overrides): builds the EVM and
/// transacts one transaction.
pub trait RefEngine {
    fn transact(
        &mut self,
        state: &mut RefState<'_>,
        cfg: &CfgEnv,
        block: &BlockEnv,
        txid: usize,
        tx: &TxEnv,
    ) -> Result<revm::context::result::ResultAndState, EVMError<DbErr>>;
}

pub struct StockEngine;
impl RefEngine for StockEngine {
    fn transact(
        &mut self,
        state: &mut RefState<'_>,
        cfg: &CfgEnv,
        block: &BlockEnv,
        _txid: usize,
        tx: &TxEnv,
    ) -> Result<revm::context::result::ResultAndState, EVMError<DbErr>> {
        let mut evm = Context::mainnet().with_db(state).with_cfg(cfg.clone()).with_block(block.clone()).build_mainnet();
        evm.transact(tx.clone()).map_err(flatten_err)
    }
}

/// Fault-free in-order pre-pass that resolves nonce / value policies into concrete `TxEnv`s.
pub fn materialise_txs(sc: &Scenario, m: &Materialised) -> Vec<TxEnv> {
    let mut db = m.db.without_faults();
    db.yields = false;
    let mut state = new_ref_state(&db);
    let mut txs = Vec::new();
    let mut engine = StockEngine;
    for def in &sc.txs {
        let caller = sc.world.addr(&AddrRef::Eoa(def.sender));
        let info = state.basic(caller).ok().flatten();
        let (n, b) = info.map(|i| (i.nonce, i.balance)).unwrap_or((0, U256::ZERO));
        // authority nonces as of now
        let mut auth_n: Vec<(Address, u64)> = Vec::new();
        for a in &def.auths {
            if let Some(i) = a.authority {
                let addr = sc.world.addr(&AddrRef::Eoa(i));
                let nn = state.basic(addr).ok().flatten().map(|i| i.nonce).unwrap_or(0);
                auth_n.push((addr, nn));
            }
        }
        let lookup = |a: Address| auth_n.iter().find(|(x, _)| *x == a).map(|(_, n)| *n).unwrap_or(0);
        let tx = build_tx(sc, def, n, b, &lookup);
        if let Ok(r) = engine.transact(&mut state, &m.cfg, &m.block, txs.len(), &tx) {
            state.commit(r.state);
        }
        txs.push(tx);
    }
    txs
}

pub fn run_reference_with(
    m: &Materialised,
    db: &MemDb,
    txs: &[TxEnv],
    preload_beneficiary: bool,
    want_readback: bool,
    engine: &mut dyn RefEngine,
) -> RefOutput {
    let mut state = new_ref_state(db);
    let mut outcomes = Vec::new();
    let mut deltas = Vec::new();
    let mut error = None;
    if preload_beneficiary && !txs.is_empty() {
        if let Err(e) = state.basic(m.block.beneficiary) {
            error = Some((0, err_sig(&EVMError::Database(flatten_db_err(e)))));
        }
    }
    if error.is_none() {
        for (i, tx) in txs.iter().enumerate() {
            match engine.transact(&mut state, &m.cfg, &m.block, i, tx) {
                Ok(r) => {
                    deltas.push(normalise_state(&r.state));
                    state.commit(r.state);
                    outcomes.push(TxExecutionOutcome::Executed(r.result));
                }
                Err(EVMError::Transaction(e)) => {
                    deltas.push(vec![]);
                    outcomes.push(TxExecutionOutcome::Skipped(e));
                }
                Err(other) => {
                    error = Some((i, err_sig(&other)));
                    break;
                }
            }
        }
    }
    state.merge_transitions(BundleRetention::Reverts);
    let bundle = state.take_bundle();
    let readback = if want_readback { read_back(&mut state, &m.universe).ok() } else { None };
    RefOutput { outcomes, deltas, error, bundle, readback }
}

pub fn run_reference(m: &Materialised, db: &MemDb, txs: &[TxEnv], preload_beneficiary: bool, want_readback: bool) -> RefOutput {
    run_reference_with(m, db, txs, preload_beneficiary, want_readback, &mut StockEngine)
}


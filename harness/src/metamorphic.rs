//! C06: results do not depend on worker count, thresholds, sequential mode, entry point or timing
//! (metamorphic). For policy = disabled the base run is additionally tied to the stock reference.

use crate::compare::*;
use crate::driver::{hash_str, CaseEval};
use crate::dsched::{Schedule, Verdict};
use crate::reference::*;
use crate::runner::*;
use crate::scenario::*;
use crate::world::*;
use serde::{Deserialize, Serialize};

#[derive(Clone, Debug, Serialize, Deserialize)]
pub struct Variant {
    pub concurrency: u8,
    /// 0 => 0, 1 => n, 2 => n+1, 3 => 64
    pub min_parallel_kind: u8,
    /// 0 execute, 1 parallel_execute(Some(k)), 2 fallback_sequential
    pub entry_kind: u8,
    pub schedule: Option<Schedule>,
}

#[derive(Clone, Debug, Serialize, Deserialize)]
pub struct C06Case {
    pub sc: Scenario,
    pub variants: Vec<Variant>,
    /// policy combinations to run: bit0 forbid_delegated_create, bit1 reserve_delegated_balance
    pub policies: Vec<u8>,
}

fn cfg_for(v: &Variant, policy: u8, n: usize) -> GrevmCfg {
    GrevmCfg {
        concurrency: v.concurrency.max(1),
        min_parallel_txs: match v.min_parallel_kind % 4 {
            0 => 0,
            1 => n.min(250) as u8,
            2 => (n + 1).min(250) as u8,
            _ => 64,
        },
        force_sequential: false,
        forbid_delegated_create: policy & 1 != 0,
        reserve_delegated_balance: policy & 2 != 0,
        entry: match v.entry_kind % 3 {
            0 => Entry::Execute,
            1 => Entry::ParallelExecute(v.concurrency.max(1)),
            _ => Entry::FallbackSequential,
        },
    }
}

fn same(a: &GrevmOutput, b: &GrevmOutput) -> Result<(), String> {
    if a.result != b.result {
        return Err(format!("Ok/Err differs: base {:?} vs variant {:?}", a.result, b.result));
    }
    compare_outcomes(&a.outcomes, &b.outcomes)?;
    compare_bundles(&a.bundle, &b.bundle)
}

pub fn eval_c06(case: &C06Case) -> CaseEval {
    let mut ev = CaseEval::default();
    let sc = &case.sc;
    let m = materialise(sc);
    let txs = materialise_txs(sc, &m);
    let n = txs.len();
    let mut db = m.db.clone();
    db.yields = false;
    let stock = run_reference(&m, &db, &txs, false, false);
    let mut base_off: Option<GrevmOutput> = None;
    for &policy in &case.policies {
        let base_cfg = GrevmCfg {
            concurrency: 1,
            min_parallel_txs: 0,
            force_sequential: true,
            forbid_delegated_create: policy & 1 != 0,
            reserve_delegated_balance: policy & 2 != 0,
            entry: Entry::Execute,
        };
        let base = run_grevm(&m, m.db.clone(), &txs, &base_cfg, Some(&Schedule::default()), None, false);
        ev.extra_evals += 1;
        if policy == 0 {
            // tie the family to the external oracle
            let r = match (&stock.error, &base.result) {
                (None, Ok(())) => compare_outcomes(&stock.outcomes, &base.outcomes).and_then(|_| compare_bundles(&stock.bundle, &base.bundle)),
                (Some((k, s)), Err((gk, gs))) if k == gk && s == gs => {
                    compare_outcomes(&stock.outcomes, &base.outcomes).and_then(|_| compare_bundles(&stock.bundle, &base.bundle))
                }
                (a, b) => Err(format!("forced-sequential run {b:?} vs stock reference error {a:?}")),
            };
            if let Err(e) = r {
                ev.failure = Some(("base-vs-stock".into(), e));
                ev.replay_override = Some(serde_json::to_value(&C06Case { sc: sc.clone(), variants: vec![], policies: vec![0] }).unwrap());
                return ev;
            }
        }
        let policy_acted = match &base_off {
            Some(off) => same(off, &base).is_err(),
            None => false,
        };
        if policy != 0 {
            *ev.hist.entry(format!("policy_{policy}_acted")).or_insert(0) += policy_acted as u64;
            *ev.hist.entry(format!("policy_{policy}_runs")).or_insert(0) += 1;
        }
        let mut any_parallel = false;
        for v in &case.variants {
            let g = cfg_for(v, policy, n);
            let par = takes_parallel_path(&g, n);
            let out = run_grevm(&m, m.db.clone(), &txs, &g, v.schedule.as_ref(), None, false);
            ev.extra_evals += 1;
            match &out.verdict {
                Verdict::Inconclusive { detail } => {
                    ev.inconclusive = Some(detail.clone());
                    continue;
                }
                Verdict::Deadlock { detail } => {
                    ev.failure = Some(("termination/deadlock".into(), detail.clone()));
                }
                _ => {}
            }
            if ev.failure.is_none() {
                if let Some(p) = &out.panic {
                    ev.failure = Some(("panic".into(), p.clone()));
                } else if let Err(e) = same(&base, &out) {
                    ev.failure = Some(("variant-differs".into(), format!("policy={policy} variant={}: {e}", serde_json::to_string(&g).unwrap())));
                }
            }
            if ev.failure.is_some() {
                ev.replay_override =
                    Some(serde_json::to_value(&C06Case { sc: sc.clone(), variants: vec![v.clone()], policies: vec![policy] }).unwrap());
                return ev;
            }
            let cls = classify(&out.log);
            if par && cls.speculative_txs >= 2 {
                any_parallel = true;
            }
            if par && cls.speculative_txs >= 2 && (policy == 0 || policy_acted) {
                ev.nontrivial_hashes.push(hash_str(&format!("{}|{}|{}", serde_json::to_string(sc).unwrap(), policy, serde_json::to_string(v).unwrap())));
            }
        }
        *ev.hist.entry("blocks_x_policy_with_parallel_variant".into()).or_insert(0) += any_parallel as u64;
        if policy == 0 {
            base_off = Some(base);
        }
    }
    *ev.hist.entry("blocks".into()).or_insert(0) += 1;
    *ev.hist.entry(format!("spec_{}", SPEC_NAMES[sc.spec as usize % 14])).or_insert(0) += 1;
    ev
}
